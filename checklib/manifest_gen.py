#!/usr/bin/env python3
"""Regenerates /verif/MANIFEST.json from the table below (keeps it valid at all times)."""
import json, os, subprocess
VERIF = os.path.dirname(os.path.dirname(os.path.abspath(__file__)))
props = [json.loads(l)["id"] for l in open(os.path.join(VERIF, "properties.jsonl"))]

MC = "model_checking"
TECH_SESSION = "TLA+ session specification model-checked with TLC; every TLC-generated behaviour replayed into the Rust library (spec->impl conformance)"
TECH_INT = "algorithm transcribed into a TLA+ state machine over integers, model-checked with TLC against its naive definition; every TLC-computed case executed on the real Rust function and compared (MongoDB-style spec->test generation)"
NOTE = "bounded constants (see evidence coverage.models); ideal-algebra abstraction of spec/Verifier.tla; arkworks algebra, Poseidon and Merkle primitives trusted; TLC 1.8 trusted"

CLAIMED = {
 "C01": (MC, "TLC enumerates every bounded honest session (setup, trim, polynomial list incl. zero/constant/low-order-zero/mixed classes, bound and hiding choices, open / batch_open over 4 query-set shapes / open_combinations) of the 8 trait schemes and checks C01_HonestAccepted and C11_LockStep on the faithful verifier model; every terminal state is replayed on the real library where acceptance is the observable. Exhaustive within the stated constants; not a proof.", "§4 C01", TECH_SESSION),
 "C02": (MC, "Adversary moves are first-class actions of the session spec: a false value at every position, another point for every group, a commitment to another polynomial for every label, in check, batch_check and check_combinations. TLC checks NoFalseAccept/WantHolds on the verifier model (and finds the Hyrax counterexample by itself); every behaviour is replayed and must not be accepted; falsity of the claim is confirmed concretely before an alarm.", "§4 C02", TECH_SESSION),
 "C03": (MC, "The attack catalogue (prover run on another polynomial, replay from another point, every proof component replaced, per-scheme shape mutations, proof lists of wrong length, and the two crafted linear-code forgeries built by walking the verifier's transcript) as spec actions, always with a false claim; TLC checks WantHolds/NoUnknownShape on the guard-faithful verifier model; each entry has a concrete constructor in the harness and is replayed.", "§4 C03", TECH_SESSION),
 "C04": (MC, "For Marlin, Sonic and IPA TLC enumerates all (supported, enforced-bound presentations, polynomial degree, declared bound) around every boundary and the moves relabel d'->d, drop / randomise / swap the shifted part; admission classes come from spec/Admission.tla, the verifier decision from spec/Verifier.tla; replay compares Err|panic vs Ok and accept vs not-accept.", "§4 C04", TECH_SESSION),
 "C05": (MC, "Batch verifiers per scheme (default loop, Marlin/PST13 accumulate + KZG10 batch check, Sonic, IPA) against the AND of single checks computed with the single-verifier model: every subset (<=3) of false claims, cancelling +a/-a pairs within and across points, proof lists emptied/truncated/extended/swapped/duplicated; replay runs batch_check under two verifier RNG seeds and the per-point checks on the same data.", "§4 C05", TECH_SESSION),
 "C06": (MC, "QuerySets.tla transcribes both combination paths (trait default with transmitted evaluations and their BTreeMap/BTreeSet re-association; homomorphic Marlin/Sonic/IPA path with constants subtracted and the degree-bound policy). 6 LC shapes x 3 query shapes, honest and perturbed (value, coefficient, constant, transmitted evaluations incl. sum-preserving); replayed on all 8 trait schemes.", "§4 C06", TECH_SESSION),
 "C11": (MC, "Sponges are logs in the spec (Transcript.tla: prover and verifier schedules written separately per scheme); histories of 2-3 operations on one shared sponge; invariant C11_LockStep after every prefix, and a perturbed verifier pre-state or transposed proofs must not be accepted; replay compares the full Poseidon state of both sides after every operation.", "§4 C11", TECH_SESSION),
 "C17": (MC, "spec/Admission.tla gives the class ok / refuse / unconstrained of every request; TLC enumerates magnitudes around every boundary (0, supported, supported+1, max, max+1) for setup, trim, commit (degree, bound, hiding, RNG presence, number of variables); replay under catch_unwind: refuse => Err or abort and no result; ok => no abort and the honest continuation verifies.", "§4 C17", TECH_SESSION),
 "C13": (MC, "FixedPoint.tla carries certified lower/upper enclosures (432-bit directed-rounding limbs in TLA+) of (1-d/2)^t and of the threshold 2^-lambda - n/|F|, so Columns.tla yields per parameter set either refusal or the interval [tlo,thi] of the least admissible column count; calculate_t is compared point by point on a seeded grid (lambda 1..256, distances incl. 61/1521 and neighbours, n up to 2^40, four fields) wherever the interval closes; recorded honest openings (trace direction: code -> spec) are validated by TLC against the shape law (exactly t columns/paths, leaf index = transcript byte fold mod n); encoding linearity and declared length by random messages.", "§4 C13", "certified fixed-point oracle in TLA+ evaluated by TLC; calculate_t compared on a grid; recorded openings validated by TLC against the shape law"),
 "C14": (MC, "Folding.tla transcribes FoldedPolynomialTreeIter/StreamIter (init_stack, one action per branch of next) and StreamOpen.tla the space-efficient open / open_multi_points (deque, base-skip offsets) over the integers; TLC checks them against naive folds / polynomial division for all lengths 1..130 x depths 0..7 and all enumerated polynomials x point sets, and every TLC-computed case is executed on the real iterators, both provers and the verifier (time == space, proof == MSM of the spec's quotient with the paired key powers, accept truth / reject value+1).", "§4 C14", TECH_INT),
 "C15": (MC, "Combinations.tla is the position-vector machine of the multiset enumerator run on setup's input: TLC checks for the whole grid (num_vars, max_degree <= 5, thorough 6) that exactly all multisets are produced once; DivideAtPoint.tla checks the quotient identity for every small polynomial with mixed monomials; the real iterator, the real divide_at_point, the key set / element count / trapdoor pairing identities / trim filter of the real parameters are compared with TLC's output; PST13 sessions with mixed-monomial polynomials are replayed (C01/C02).", "§4 C15", TECH_INT),
 "C16": (MC, "LinComb.tla: the seven LinearCombination operators as actions with the value law as invariant over all operator sequences up to length 3-4; CheckPoly.tla: compute_coeffs loop against the product form for all challenge vectors of length 0..4; TLC's term lists / coefficient vectors are re-executed on the real types; randomized field-level sequences (length 12, challenge vectors 0..10) and evaluate_query_set on shared labels/points complete the quantifier.", "§4 C16", TECH_INT),
}

def main():
    checks = []
    for p in props:
        if p not in CLAIMED:
            continue
        cat, text, ref, tech = CLAIMED[p]
        checks.append(dict(property_id=p, quick_cmd="./check %s --tier quick" % p,
                           thorough_cmd="./check %s --tier thorough" % p,
                           evidence_file="evidence/%s.json" % p,
                           replay_cmd_template="./check %s --replay {path}" % p, engine="tlc+pcv",
                           level_claimed=dict(category=cat, text=text, design_ref=ref),
                           level_note=NOTE, technique=tech))
    hooks = subprocess.run(["git", "-C", "/repo", "log", "--format=%h", "--grep=^verif hooks"], stdout=subprocess.PIPE, text=True).stdout.split()
    m = dict(version=1,
             setup_cmd="cd harness && cargo build --release --offline && cargo build --release --offline --no-default-features --target-dir target-nopar",
             hooks=dict(guard="pc_verif",
                        enable="harness/.cargo/config.toml passes --cfg pc_verif (rustflags) to the path dependency /repo/poly-commit; hooks are add-only accessor modules (verif_api, */verif_hooks.rs)",
                        baseline_off_cmd="cd /repo && cargo test --workspace --no-fail-fast --offline",
                        source_commits=hooks, add_only=True),
             engines=[dict(name="tlc+pcv", path="check", serves_properties=sorted(CLAIMED),
                           kind_free_text="TLA+ specifications (spec/*.tla) model-checked by TLC; TLC-generated behaviours replayed and recorded traces validated by the Rust harness (harness/, crate pcv) built against /repo's working tree")],
             checks=checks,
             not_applicable=[dict(property_id=p, reason="check under construction in this round; not claimed yet") for p in props if p not in CLAIMED],
             notes="DESIGN.md explains the approach; known_findings.json lists genuine defects (fixed: commits in /repo; known: reported as KNOWN-FINDING).")
    json.dump(m, open(os.path.join(VERIF, "MANIFEST.json"), "w"), indent=1)

if __name__ == "__main__":
    main()
