"""Model configurations (constants of PCSession) per property, scheme and tier.
One source of truth for the spec (spec/PCSession.tla); these are the separate bounded configs."""

ALL_SCHEMES = ["marlin", "sonic", "ipa", "pst13", "hyrax", "ligero_uni", "ligero_ml", "brakedown"]

# base configuration space per scheme: (quick, thorough)
BASE = {
    "marlin": dict(MaxDegs={3}, Nvs={-1}, SupSet={1, 2, 3}, HidSet={0, 1, 2},
                   BoundSeqs={(), (2,), (3, 1), (2, 2, 3)}, NoBoundsToo=True,
                   ClsSet={"zero", "const", "full", "lowz"}),
    "sonic": dict(MaxDegs={3}, Nvs={-1}, SupSet={1, 2, 3}, HidSet={0, 1, 2},
                  BoundSeqs={(), (2,), (3, 1), (2, 2, 3)}, NoBoundsToo=True,
                  ClsSet={"zero", "const", "full", "lowz"}),
    "ipa": dict(MaxDegs={3}, Nvs={-1}, SupSet={1, 2, 3}, HidSet={0, 1},
                BoundSeqs={()}, NoBoundsToo=True, ClsSet={"zero", "const", "full", "lowz"}),
    "pst13": dict(MaxDegs={2}, Nvs={2}, SupSet={1, 2}, HidSet={0, 1, 2},
                  BoundSeqs={()}, NoBoundsToo=True, ClsSet={"zero", "const", "full", "mixed", "uni"}),
    "hyrax": dict(MaxDegs={1}, Nvs={2}, SupSet={1}, HidSet={0},
                  BoundSeqs={()}, NoBoundsToo=True, ClsSet={"zero", "const", "full", "sparse"}),
    "ligero_uni": dict(MaxDegs={4}, Nvs={-1}, SupSet={4}, HidSet={0},
                       BoundSeqs={()}, NoBoundsToo=True, ClsSet={"zero", "const", "full", "lowz"}),
    "ligero_ml": dict(MaxDegs={1}, Nvs={3}, SupSet={1}, HidSet={0},
                      BoundSeqs={()}, NoBoundsToo=True, ClsSet={"zero", "const", "full", "sparse"}),
    "brakedown": dict(MaxDegs={1}, Nvs={3}, SupSet={1}, HidSet={0},
                      BoundSeqs={()}, NoBoundsToo=True, ClsSet={"zero", "const", "full", "sparse"}),
}

THOROUGH = {
    "marlin": dict(MaxDegs={4}, SupSet={1, 2, 3, 4}, BoundSeqs={(), (2,), (3, 1), (2, 2, 3), (4,), (1, 2, 3, 4), (4, 2)}),
    "sonic": dict(MaxDegs={4}, SupSet={1, 2, 3, 4}, BoundSeqs={(), (2,), (3, 1), (2, 2, 3), (4,), (1, 2, 3, 4), (4, 2)}),
    "ipa": dict(MaxDegs={7}, SupSet={1, 3, 5, 7}),
    "pst13": dict(MaxDegs={3}, SupSet={1, 2, 3}, Nvs={2, 3}),
    "hyrax": dict(Nvs={2, 4}),
    "ligero_uni": dict(MaxDegs={8}, SupSet={8}),
    "ligero_ml": dict(Nvs={3, 4}),
    "brakedown": dict(Nvs={3, 4}),
}

# narrower spaces for the adversarial modes (every position of every batch is perturbed)
NARROW = {
    "marlin": dict(SupSet={2, 3}, HidSet={0, 1}, BoundSeqs={(), (3, 2)}, NoBoundsToo=False, ClsSet={"zero", "const", "full"}),
    "sonic": dict(SupSet={2, 3}, HidSet={0, 1}, BoundSeqs={(), (3, 2)}, NoBoundsToo=False, ClsSet={"zero", "const", "full"}),
    "ipa": dict(SupSet={3}, HidSet={0, 1}, ClsSet={"zero", "const", "full"}),
    "pst13": dict(SupSet={2}, HidSet={0, 1}, ClsSet={"zero", "const", "full", "mixed"}),
    "hyrax": dict(ClsSet={"zero", "const", "full"}),
    "ligero_uni": dict(ClsSet={"zero", "const", "full"}),
    "ligero_ml": dict(ClsSet={"zero", "const", "full"}),
    "brakedown": dict(ClsSet={"zero", "const", "full"}),
}

INV_ALL = ["TypeOK", "C01_HonestAccepted", "C11_LockStep", "NoFalseAccept", "WantHolds",
           "NoUnknownShape", "BatchIsAndOfSingles", "EmitReplay"]


def excused_for(scheme, known):
    """Spec-level excuses (scheme, plan-name) from known_findings.json entries that carry `spec_excuse`."""
    ex = set()
    for k in known:
        if k.get("status") == "known":
            for e in k.get("spec_excuse", []):
                if e[0] == scheme:
                    ex.add((e[0], e[1]))
    return ex


def session_config(scheme, mode, tier, known, narrow=False, **over):
    c = dict(BASE[scheme])
    if tier == "thorough":
        c.update(THOROUGH.get(scheme, {}))
    if narrow:
        c.update(NARROW.get(scheme, {}))
        if tier == "thorough" and scheme in ("marlin", "sonic"):
            c.update(SupSet={2, 3, 4}, HidSet={0, 1, 2}, ClsSet={"const", "full", "lowz"})
    # linear codes: both values of the public option check_well_formedness (own parameters instead of the default setup)
    c.update(WfSet={True, False} if scheme in ("ligero_uni", "ligero_ml", "brakedown") and mode in ("C01", "C02", "C03", "C05", "C10", "C11", "C12") else {True})
    c.update(Tree="fixed", Scheme=scheme, Mode=mode, MaxPolys=2, OpKinds={"open", "batch"},
             QsShapes={1, 2, 3, 4}, LcShapes={1, 2, 3, 4}, MaxOps=1, Emit=True,
             Excused=excused_for(scheme, known))
    c.update(over)
    # thorough tier: three committed polynomials and the remaining query / combination shapes
    if tier == "thorough" and narrow and mode in ("C01", "C02", "C03", "C05", "C06", "C10") and "MaxPolys" not in over:
        c["MaxPolys"] = 3
        if "batch" in c["OpKinds"]:
            c["QsShapes"] = set(c["QsShapes"]) | {5, 6}
        if "lc" in c["OpKinds"]:
            c["LcShapes"] = set(c["LcShapes"]) | {5, 6}
    return c
