"""Generate TLC model modules (MC_*.tla + .cfg) for PCSession from python config dicts.
cfg files cannot hold negative numbers or nested tuples portably, so every constant is
defined as an operator in a small MC module and substituted with `<-`."""
import os

def tla(v):
    if isinstance(v, bool):
        return "TRUE" if v else "FALSE"
    if isinstance(v, int):
        return str(v)
    if isinstance(v, str):
        return '"%s"' % v
    if isinstance(v, (set, frozenset)):
        return "{" + ", ".join(sorted(tla(x) for x in v)) + "}"
    if isinstance(v, (list, tuple)):
        return "<<" + ", ".join(tla(x) for x in v) + ">>"
    raise TypeError(v)

PCS_CONSTS = ["Tree", "Scheme", "Mode", "MaxDegs", "Nvs", "SupSet", "HidSet", "BoundSeqs", "NoBoundsToo",
              "ClsSet", "WfSet", "MaxPolys", "OpKinds", "QsShapes", "LcShapes", "MaxOps", "Emit", "Excused"]

def write_model(outdir, name, consts, invariants, module="PCSession", extra_cfg=""):
    os.makedirs(outdir, exist_ok=True)
    mc = "MC_" + name
    lines = ["---- MODULE %s ----" % mc, "EXTENDS %s" % module, ""]
    cfg = ["SPECIFICATION Spec", "CONSTANTS"]
    for k in consts:
        lines.append("mc_%s == %s" % (k, tla(consts[k])))
        cfg.append("  %s <- mc_%s" % (k, k))
    lines.append("====")
    if invariants:
        cfg.append("INVARIANTS " + " ".join(invariants))
    cfg.append("CHECK_DEADLOCK FALSE")
    if extra_cfg:
        cfg.append(extra_cfg)
    open(os.path.join(outdir, mc + ".tla"), "w").write("\n".join(lines) + "\n")
    open(os.path.join(outdir, mc + ".cfg"), "w").write("\n".join(cfg) + "\n")
    return mc
