"""Shared machinery of ./check: build the harness from /repo's working tree, run TLC on generated
model modules, pipe TLC-generated behaviours through `pcv`, match known findings, write evidence."""
import json, os, re, shutil, subprocess, sys, time, glob, hashlib

VERIF = os.path.dirname(os.path.dirname(os.path.abspath(__file__)))
SPEC = os.path.join(VERIF, "spec")
WORK = os.path.join(VERIF, "work")
HARNESS = os.path.join(VERIF, "harness")
EVID = os.path.join(VERIF, "evidence")
KNOWN = os.path.join(VERIF, "known_findings.json")

sys.path.insert(0, os.path.dirname(os.path.abspath(__file__)))
import mcgen


class ToolError(Exception):
    pass


def seed():
    try:
        return int(os.environ.get("VERIF_SEED", "1"))
    except ValueError:
        return 1


def log(*a):
    print(*a, flush=True)


def sh(cmd, cwd=None, timeout=None, env=None, stdin=None):
    e = dict(os.environ)
    if env:
        e.update(env)
    p = subprocess.run(cmd, cwd=cwd, timeout=timeout, env=e, input=stdin,
                       stdout=subprocess.PIPE, stderr=subprocess.STDOUT, text=True)
    return p.returncode, p.stdout


_built = {}


def build_harness(parallel=True):
    """cargo build of the harness against /repo's current working tree (hooks on via rustflags)."""
    key = "par" if parallel else "nopar"
    if key in _built:
        return _built[key]
    t0 = time.time()
    tdir = "target" if parallel else "target-nopar"
    cmd = ["cargo", "build", "--release", "--offline", "--target-dir", tdir]
    if not parallel:
        cmd += ["--no-default-features"]
    rc, out = sh(cmd, cwd=HARNESS, timeout=3600, env={"CARGO_NET_OFFLINE": "true"})
    if rc != 0:
        sys.stderr.write(out[-6000:])
        raise ToolError("harness build failed (the tree under /repo does not compile with --cfg pc_verif?)")
    path = os.path.join(HARNESS, tdir, "release", "pcv")
    _built[key] = path
    log("[build] harness (%s) ready in %.1fs" % (key, time.time() - t0))
    return path


TLC_STATS = re.compile(r"(\d+) states generated, (\d+) distinct states found")
TLC_DEPTH = re.compile(r"The depth of the complete state graph search is (\d+)")


def sync_specs(mcdir):
    """Copy spec/*.tla next to the generated model, atomically and only when the content differs:
    several TLC runs (threads of one check, or several checks at once) share the directory, and a
    plain copy could be read half-written by a TLC that is parsing at that moment."""
    for f in glob.glob(os.path.join(SPEC, "*.tla")):
        dst = os.path.join(mcdir, os.path.basename(f))
        data = open(f, "rb").read()
        try:
            if open(dst, "rb").read() == data:
                continue
        except OSError:
            pass
        tmp = "%s.%d.%d.tmp" % (dst, os.getpid(), int(time.time() * 1e6) % 1000000)
        with open(tmp, "wb") as fh:
            fh.write(data)
        os.replace(tmp, dst)


def run_tlc(mcdir, mc, workers=8, timeout=900, simulate=None, extra=None):
    """Run TLC on MC module `mc` in `mcdir`; returns dict with stats, replay payloads, invariant violations."""
    sync_specs(mcdir)
    meta = os.path.join(WORK, "tlcmeta", mc)
    shutil.rmtree(meta, ignore_errors=True)
    os.makedirs(meta, exist_ok=True)
    cmd = ["timeout", str(timeout), "tlc", "-workers", str(workers), "-metadir", meta, "-cleanup",
           "-noGenerateSpecTE", "-config", mc + ".cfg"]
    if simulate:
        cmd += ["-simulate", simulate, "-seed", str(seed())]
    if extra:
        cmd += extra
    cmd += [mc + ".tla"]
    t0 = time.time()
    env = {"JAVA_TOOL_OPTIONS": "-Xss512m"}
    p = subprocess.Popen(cmd, cwd=mcdir, stdout=subprocess.PIPE, stderr=subprocess.STDOUT, text=True,
                         env=dict(os.environ, **env))
    payloads = []
    others = []
    violated = []
    for line in p.stdout:
        if line.startswith('<<"REPLAY", '):
            s = line.rstrip("\n")
            try:
                payloads.append(json.loads(json.loads(s[len('<<"REPLAY", '):-2])))
            except Exception as ex:  # pragma: no cover
                raise ToolError("cannot parse TLC REPLAY line: %s (%s)" % (s[:200], ex))
        elif line.startswith('<<"DUMP", '):
            s = line.rstrip("\n")
            payloads.append(json.loads(json.loads(s[len('<<"DUMP", '):-2])))
        else:
            others.append(line)
            m = re.search(r"Invariant (\w+) is violated", line)
            if m:
                violated.append(m.group(1))
    rc = p.wait()
    text = "".join(others)
    shutil.rmtree(meta, ignore_errors=True)
    st = TLC_STATS.findall(text)
    dp = TLC_DEPTH.findall(text)
    res = dict(rc=rc, wall=time.time() - t0, payloads=payloads, violated=violated,
               generated=int(st[-1][0]) if st else 0, distinct=int(st[-1][1]) if st else 0,
               depth=int(dp[-1]) if dp else 0, text=text)
    if rc == 124:
        raise ToolError("TLC timed out on %s after %ds" % (mc, timeout))
    if rc != 0 and not violated:
        sys.stderr.write(text[-4000:])
        raise ToolError("TLC failed on %s (rc=%d)" % (mc, rc))
    return res


def gen_and_run(name, consts, invariants, module="PCSession", workers=8, timeout=900, simulate=None):
    mcdir = os.path.join(WORK, "mc")
    os.makedirs(mcdir, exist_ok=True)
    mc = mcgen.write_model(mcdir, name, consts, invariants, module=module)
    return run_tlc(mcdir, mc, workers=workers, timeout=timeout, simulate=simulate)


def replay(behs, parallel=True, timeout=3600):
    """Pipe behaviours through `pcv replay`; returns verdict dicts (same order)."""
    if not behs:
        return []
    binp = build_harness(parallel)
    data = "\n".join(json.dumps(b) for b in behs) + "\n"
    p = subprocess.run([binp, "replay"], input=data, stdout=subprocess.PIPE, stderr=subprocess.PIPE,
                       text=True, timeout=timeout, env=dict(os.environ, VERIF_SEED=str(seed())))
    if p.returncode != 0:
        sys.stderr.write(p.stderr[-4000:])
        raise ToolError("pcv replay failed rc=%d" % p.returncode)
    out = [json.loads(l) for l in p.stdout.splitlines() if l.strip()]
    if len(out) != len(behs):
        raise ToolError("pcv replay answered %d of %d behaviours" % (len(out), len(behs)))
    return out


def pcv(args, stdin=None, parallel=True, timeout=3600, env=None):
    binp = build_harness(parallel)
    e = dict(os.environ, VERIF_SEED=str(seed()))
    if env:
        e.update(env)
    p = subprocess.run([binp] + args, input=stdin, stdout=subprocess.PIPE, stderr=subprocess.PIPE,
                       text=True, timeout=timeout, env=e)
    if p.returncode != 0:
        sys.stderr.write(p.stderr[-4000:])
        raise ToolError("pcv %s failed rc=%d" % (" ".join(args[:2]), p.returncode))
    return p.stdout


def load_known():
    if not os.path.exists(KNOWN):
        return []
    return json.load(open(KNOWN))


def match_known(prop, scheme, tag, why, known):
    """A violation matches a *known* (not fixed) entry iff property, scheme and signature match."""
    for k in known:
        if k.get("status") != "known":
            continue
        if k["property"] != prop:
            continue
        if k.get("scheme") not in (None, "*", scheme):
            continue
        sig = k.get("signature", "")
        if sig and not re.search(sig, "%s|%s" % (tag, why)):
            continue
        return k
    return None


class Result:
    """Accumulates what one check run covered and found."""

    def __init__(self, prop, tier, level="model_checking"):
        self.prop, self.tier, self.level = prop, tier, level
        self.t0 = time.time()
        self.states = 0
        self.transitions = 0
        self.traces = 0
        self.evaluations = 0
        self.distinct = set()
        self.samples = []
        self.violations = []      # (record, replay path)
        self.known_hits = {}      # entry id -> count
        self.drift = []
        self.skipped = 0
        self.per_scheme = {}
        self.notes = []
        self.models = []
        self.extra = {}
        self.model_violations = []
        self.known = load_known()
        for f in glob.glob(os.path.join(WORK, "violations", "%s-*.json" % prop)):
            os.remove(f)

    def add_tlc(self, name, r):
        self.states += r["distinct"]
        self.transitions += r["generated"]
        self.models.append(dict(model=name, distinct=r["distinct"], generated=r["generated"],
                                depth=r["depth"], wall_s=round(r["wall"], 1), behaviours=len(r["payloads"])))
        if r["violated"]:
            self.model_violations.append((name, r["violated"]))

    def violation(self, rec, what):
        os.makedirs(os.path.join(WORK, "violations"), exist_ok=True)
        n = len(self.violations) + 1
        path = os.path.join(WORK, "violations", "%s-%d.json" % (self.prop, n))
        json.dump(rec, open(path, "w"), indent=1)
        self.violations.append((what, path))
        if n <= 10:
            log("VIOLATION property=%s replay=%s" % (self.prop, path))
            log("  " + what[:300])

    def add_verdicts(self, behs, verdicts):
        """Judge replayed behaviours: property observables -> violation / known finding; model detail -> drift."""
        for b, v in zip(behs, verdicts):
            self.traces += 1
            self.evaluations += 1
            sch = b.get("scheme", "?")
            ps = self.per_scheme.setdefault(sch, dict(replayed=0, ok=0, violation=0, known=0, skip=0, drift=0))
            ps["replayed"] += 1
            # which adversary plans / honest shapes were actually exercised (vacuity: a plan that never fires is visible)
            self.plans = getattr(self, "plans", {})
            pk = "%s:%s" % (sch, b.get("tag") or "(none)")
            self.plans[pk] = self.plans.get(pk, 0) + 1
            sig = json.dumps([b.get("scheme"), b.get("tag"), b.get("polys"), b.get("ops"), b.get("adv"),
                              b.get("supported"), b.get("bounds"), b.get("hiding"), b.get("cfg"), b.get("stmt")], sort_keys=True)
            self.distinct.add(hashlib.sha1(sig.encode()).hexdigest())
            if len(self.samples) < 3 and (b.get("adv") or len(self.samples) < 1):
                self.samples.append(dict(behaviour=b, observed=v["obs"], verdict=v["verdict"]))
            if v["verdict"] == "violation":
                k = match_known(self.prop, sch, b.get("tag", ""), v["why"], self.known)
                if k:
                    self.known_hits[k["id"]] = self.known_hits.get(k["id"], 0) + 1
                    ps["known"] += 1
                else:
                    ps["violation"] += 1
                    self.violation(dict(kind="behaviour", behaviour=b, verdict=v),
                                   "%s %s: %s" % (sch, b.get("tag", ""), v["why"]))
            elif v["verdict"] == "skip":
                self.skipped += 1
                ps["skip"] += 1
            elif v["verdict"] == "drift":
                ps["drift"] += 1
                self.drift.append("%s %s: %s" % (sch, b.get("id"), v["why"]))
            else:
                ps["ok"] += 1
                # implementation-level comparison with the model's prediction
                for i, m in enumerate(b.get("model", [])):
                    try:
                        o = v["obs"]["ops"][i]
                    except IndexError:
                        break
                    # the sponge schedules of spec/Transcript.tla against the logged sponge calls (honest calls)
                    if not b.get("adv") and o.get("open") == "ok" and "spp" in m and "sp_shape_p" in o:
                        self.schedule_checked = getattr(self, "schedule_checked", 0) + 1
                        if "".join(m["spp"]) != "".join(o["sp_shape_p"]) or \
                           (o["check"] not in ("skipped", "") and "".join(m["spv"]) != "".join(o["sp_shape_v"])):
                            ps["drift"] += 1
                            self.drift.append("%s %s op%d: sponge schedule differs from Transcript.tla: prover %s / %s, verifier %s / %s" % (
                                sch, b.get("id"), i + 1, "".join(m["spp"]), "".join(o["sp_shape_p"]), "".join(m["spv"]), "".join(o["sp_shape_v"])))
                    obs_acc = o["check"] == "accept"
                    mod = m.get("res")
                    if mod in ("accept", "reject", "err", "panic") and o["check"] not in ("skipped", ""):
                        if (mod == "accept") != obs_acc:
                            ps["drift"] += 1
                            self.drift.append("%s %s op%d: model %s, code %s" % (sch, b.get("id"), i + 1, mod, o["check"]))
                            if len(self.drift) <= 20:
                                os.makedirs(os.path.join(WORK, "drift"), exist_ok=True)
                                json.dump(dict(behaviour=b, verdict=v), open(os.path.join(WORK, "drift", "%s-%d.json" % (self.prop, len(self.drift))), "w"), indent=1)

    def finish(self, rule, assumptions, extra_cov=None):
        for kid, cnt in sorted(self.known_hits.items()):
            k = [x for x in self.known if x["id"] == kid][0]
            log("KNOWN-FINDING: property=%s %s (%s; %d behaviours)" % (self.prop, k["what"], kid, cnt))
        for d in self.drift[:10]:
            log("SPEC-DRIFT: " + d)
        if len(self.drift) > 10:
            log("SPEC-DRIFT: ... %d more" % (len(self.drift) - 10))
        for name, inv in self.model_violations:
            log("MODEL-VIOLATION: model %s violates %s on the specification" % (name, ",".join(inv)))
        cov = dict(states=self.states, transitions=self.transitions,
                   traces_validated_against_impl=self.traces,
                   evaluations=max(self.evaluations, 1), distinct_nontrivial=len(self.distinct),
                   rule=rule, samples=self.samples[:3] if self.samples else [{"note": "no sample"}],
                   models=self.models, per_scheme=self.per_scheme, skipped_not_applicable=self.skipped,
                   known_findings_hit=self.known_hits, drift=len(self.drift), drift_examples=self.drift[:5],
                   exhaustive=False)
        if getattr(self, "plans", None):
            cov["plans_exercised"] = dict(sorted(self.plans.items()))
        if getattr(self, "schedule_checked", 0):
            cov["sponge_schedules_compared"] = self.schedule_checked
        if extra_cov:
            cov.update(extra_cov)
        cov.update(self.extra)
        ev = dict(property_id=self.prop, tier=self.tier, seed=seed(), level=self.level, coverage=cov,
                  assumptions=assumptions, wall_s=round(time.time() - self.t0, 1),
                  violations=len(self.violations))
        os.makedirs(EVID, exist_ok=True)
        json.dump(ev, open(os.path.join(EVID, self.prop + ".json"), "w"), indent=1)
        log("[%s] %s: states=%d behaviours/traces=%d violations=%d known=%d drift=%d skipped=%d wall=%.0fs" % (
            self.prop, self.tier, self.states, self.traces, len(self.violations),
            sum(self.known_hits.values()), len(self.drift), self.skipped, time.time() - self.t0))
        if self.violations:
            return 1
        if self.model_violations and not self.violations:
            # the specification says the design violates the property but no concrete behaviour confirms it:
            # the model misrepresents the code -> tool error, never an alarm
            log("TOOL-ERROR: specification-level violation not confirmed on the code (model out of date?)")
            return 2
        return 0
