#!/bin/bash
# runs every registered quick (or thorough) check and prints one summary line per property
cd "$(dirname "$0")"
TIER=${1:-quick}
for p in $(python3 -c "import json;print(' '.join(c['property_id'] for c in json.load(open('MANIFEST.json'))['checks']))"); do
  start=$(date +%s)
  out=$(./check $p --tier $TIER 2>&1); rc=$?
  echo "$p rc=$rc $(( $(date +%s) - start ))s :: $(echo "$out" | tail -1)"
  echo "$out" | grep -E "^(VIOLATION|KNOWN-FINDING|TOOL-ERROR|MODEL-VIOLATION)" | head -5
done
