//! Conformance of the integer-transcribed algorithms: every line is one TLC-computed case
//! (inputs + the specification's expected output); the real function is run on the same
//! integers embedded in the scalar field and compared element by element.
use crate::adapter::{Fr381, MvPoly, E381};
use crate::common::*;
use ark_ec::{pairing::Pairing, AffineRepr, CurveGroup};
use ark_ff::{Field, One, UniformRand, Zero};
use ark_poly::{
    multivariate::{SparseTerm, Term},
    DenseMVPolynomial, Polynomial,
};
use ark_poly_commit::ipa_pc::SuccinctCheckPolynomial;
use ark_poly_commit::streaming_kzg::{
    CommitterKey, CommitterKeyStream, FoldedPolynomialStream, FoldedPolynomialTree, VerifierKey,
};
use ark_poly_commit::{LCTerm, LinearCombination};
use ark_std::iterable::Iterable;
use serde_json::Value;

type F = Fr381;

fn fi(v: i64) -> F {
    if v >= 0 {
        F::from(v as u64)
    } else {
        -F::from((-v) as u64)
    }
}
fn ints(v: &Value) -> Vec<i64> {
    v.as_array().map(|a| a.iter().map(|x| x.as_i64().unwrap()).collect()).unwrap_or_default()
}

pub struct Res {
    pub ok: bool,
    pub class: &'static str, // "ok" | "violation" | "drift"
    pub why: String,
}
fn ok() -> Res {
    Res { ok: true, class: "ok", why: String::new() }
}
fn bad(why: String) -> Res {
    Res { ok: false, class: "violation", why }
}

fn fold(v: &Value) -> Res {
    let which = v["which"].as_str().unwrap();
    let n = v["n"].as_i64().unwrap() as usize;
    let depth = v["depth"].as_i64().unwrap() as usize;
    let coeffs: Vec<F> = (0..n).map(|j| fi((n - j) as i64)).collect();
    let chals: Vec<F> = (0..depth).map(|l| if l % 2 == 0 { fi(2) } else { fi(3) }).collect();
    let stream = coeffs.as_slice();
    let exp: Vec<(usize, F)> = v["out"]
        .as_array()
        .unwrap()
        .iter()
        .map(|p| (p[0].as_i64().unwrap() as usize, fi(p[1].as_i64().unwrap())))
        .collect();
    let r = guarded_plain(|| {
        if which == "tree" {
            let tree = FoldedPolynomialTree::new(&stream, chals.as_slice());
            tree.iter().collect::<Vec<(usize, F)>>()
        } else {
            let st = FoldedPolynomialStream::new(&stream, chals.as_slice());
            let len = st.len();
            let items: Vec<F> = st.iter().collect();
            let mut o: Vec<(usize, F)> = items.into_iter().map(|x| (depth, x)).collect();
            // the declared length must be the number of emitted coefficients
            if len != o.len() {
                o.push((usize::MAX, F::zero()));
            }
            o
        }
    });
    match r {
        Out::Ok(got) => {
            if got == exp {
                if which == "tree" && depth >= 1 && n <= 40 {
                    return folding_provers(n, depth, &coeffs, &chals, &exp);
                }
                ok()
            } else {
                bad(format!("folded {} stream differs for n={} depth={}: got {} items, expected {}", which, n, depth, got.len(), exp.len()))
            }
        }
        o => bad(format!("iterator aborted for n={} depth={}: {}", n, depth, o.detail())),
    }
}

/// commit_folding / open_folding of the space prover against the time prover run on the
/// explicitly folded polynomials (taken from the specification's level streams).
fn folding_provers(n: usize, depth: usize, coeffs: &[F], chals: &[F], exp: &[(usize, F)]) -> Res {
    let mut rng = rng_for("foldck", n as u64);
    let time_ck = CommitterKey::<E381>::new(n, 4, &mut rng);
    let space_ck = CommitterKeyStream::from(&time_ck);
    let stream = coeffs;
    let buf = [4usize, 16, 1 << 10][(n + depth) % 3].max(depth);
    let levels: Vec<Vec<F>> = (1..=depth)
        .map(|k| {
            let mut le: Vec<F> = exp.iter().filter(|(l, _)| *l == k).map(|(_, v)| *v).collect();
            le.reverse();
            le
        })
        .collect();
    let tree = FoldedPolynomialTree::new(&stream, chals);
    let comms = match guarded_plain(|| space_ck.commit_folding(&tree, buf)) {
        Out::Ok(c) => c,
        o => return bad(format!("commit_folding aborted for n={} depth={}: {}", n, depth, o.detail())),
    };
    if comms.len() != depth {
        return bad(format!("commit_folding returned {} commitments for depth {}", comms.len(), depth));
    }
    for (k, lv) in levels.iter().enumerate() {
        if comms[k] != time_ck.commit(lv) {
            return bad(format!("commit_folding level {} differs from the time commitment (n={} depth={})", k + 1, n, depth));
        }
    }
    let pts = vec![fi(2), fi(3)];
    // the batching coefficients are an arbitrary slice: consecutive powers from eta^0, from eta^1 (the layout in
    // which a base polynomial takes eta^0), or unrelated values, in turn
    let etas: Vec<F> = match (n + depth) % 3 {
        0 => (0..depth).map(|k| fi(5).pow([k as u64])).collect(),
        1 => (0..depth).map(|k| fi(5).pow([k as u64 + 1])).collect(),
        _ => (0..depth).map(|k| fi(7 + 13 * k as i64) * fi(3 + k as i64)).collect(),
    };
    let tree2 = FoldedPolynomialTree::new(&stream, chals);
    let (rems, proof) = match guarded_plain(|| space_ck.open_folding(tree2, &pts, &etas, buf)) {
        Out::Ok(x) => x,
        o => return bad(format!("open_folding aborted for n={} depth={}: {}", n, depth, o.detail())),
    };
    let mut acc = <E381 as Pairing>::G1::zero();
    for (k, lv) in levels.iter().enumerate() {
        let pk = time_ck.open_multi_points(lv, &pts);
        acc += pk.0.into_group() * etas[k];
        // remainder of the level polynomial modulo (X-2)(X-3), big-endian, 2 entries
        let z = [fi(6), -fi(5), fi(1)];
        let mut r = lv.clone();
        while r.len() > 2 {
            let top = r.pop().unwrap();
            let l = r.len();
            r[l - 1] -= top * z[1];
            r[l - 2] -= top * z[0];
        }
        while r.len() < 2 {
            r.push(F::zero());
        }
        r.reverse();
        if rems[k] != r {
            return bad(format!("open_folding remainder of level {} differs (n={} depth={})", k + 1, n, depth));
        }
    }
    if proof.0 != acc.into_affine() {
        return bad(format!("open_folding proof differs from the time prover's combination (n={} depth={})", n, depth));
    }
    ok()
}

fn msm_at(ck: &CommitterKey<E381>, q: &[i64], pw: &[i64]) -> <E381 as Pairing>::G1Affine {
    let g = ark_poly_commit::verif_api::streaming_kzg::ck_powers_of_g(ck);
    let mut acc = <E381 as Pairing>::G1::zero();
    for (c, p) in q.iter().zip(pw) {
        acc += g[*p as usize].into_group() * fi(*c);
    }
    acc.into_affine()
}

fn streamopen(v: &Value) -> Res {
    let mode = v["mode"].as_str().unwrap();
    let f_be: Vec<F> = ints(&v["f"]).into_iter().map(fi).collect();
    let mut f_le = f_be.clone();
    f_le.reverse();
    let pts: Vec<F> = ints(&v["pts"]).into_iter().map(fi).collect();
    let q = ints(&v["q"]);
    let pw = ints(&v["pw"]);
    let keylen = v["keylen"].as_i64().unwrap() as usize;
    let phase = v["phase"].as_str().unwrap();
    let mut rng = rng_for("streamck", keylen as u64);
    let time_ck = CommitterKey::<E381>::new(keylen - 1, 6, &mut rng);
    let space_ck = CommitterKeyStream::from(&time_ck);
    let vk = VerifierKey::from(&time_ck);
    let stream = f_be.as_slice();
    let buf = [1usize, 2, 3, 1 << 10][(f_be.len() + pts.len()) % 4];
    let time_commit = time_ck.commit(&f_le);
    let space_commit = guarded_plain(|| space_ck.commit(&stream));
    match space_commit {
        Out::Ok(c) if c == time_commit => {}
        o => return bad(format!("space commitment differs from time commitment ({})", o.class())),
    }
    if mode == "single" {
        let alpha = pts[0];
        let t = time_ck.open(&f_le, &alpha);
        let s = match guarded_plain(|| space_ck.open(&stream, &alpha, buf)) {
            Out::Ok(s) => s,
            o => return bad(format!("space open aborted: {}", o.detail())),
        };
        if t != s {
            return bad("space open differs from time open".into());
        }
        let ev = fi(v["eval"].as_i64().unwrap());
        if s.0 != ev {
            return bad("evaluation differs from the specification's".into());
        }
        if s.1 .0 != msm_at(&time_ck, &q, &pw) {
            return bad("proof is not the MSM of the specification's quotient with the paired key powers".into());
        }
        if vk.verify(&time_commit, &alpha, &ev, &s.1).is_err() {
            return bad("verify rejects the true evaluation".into());
        }
        if vk.verify(&time_commit, &alpha, &(ev + F::one()), &s.1).is_ok() {
            return bad("verify accepts value+1".into());
        }
        ok()
    } else {
        let t = time_ck.open_multi_points(&f_le, &pts);
        let s = guarded_plain(|| space_ck.open_multi_points(&stream, &pts, buf));
        match (phase, s) {
            ("done", Out::Ok((rem, proof))) => {
                let exp_rem: Vec<F> = ints(&v["rem"]).into_iter().map(fi).collect();
                if rem != exp_rem {
                    return bad("remainder differs from the specification's".into());
                }
                if proof != t {
                    return bad("space open_multi_points differs from time".into());
                }
                if proof.0 != msm_at(&time_ck, &q, &pw) {
                    return bad("multi-point proof is not the MSM of the specification's quotient".into());
                }
                // verify with the true evaluations, and with one of them changed
                let evals: Vec<F> = pts
                    .iter()
                    .map(|x| f_be.iter().fold(F::zero(), |acc, c| acc * x + c))
                    .collect();
                let eta = fi(5);
                if vk.verify_multi_points(&[time_commit], &pts, &[evals.clone()], &proof, &eta).is_err() {
                    return bad("verify_multi_points rejects the true evaluations".into());
                }
                let mut wrong = evals.clone();
                wrong[0] += F::one();
                if vk.verify_multi_points(&[time_commit], &pts, &[wrong], &proof, &eta).is_ok() {
                    return bad("verify_multi_points accepts a wrong evaluation".into());
                }
                ok()
            }
            ("done", o) => bad(format!("space open_multi_points aborted: {}", o.detail())),
            // polynomial shorter than the point set: the time prover answers; the space prover must too
            (_, Out::Ok((rem, proof))) => {
                let mut exp_rem = vec![F::zero(); pts.len() - f_be.len()];
                exp_rem.extend_from_slice(&f_be);
                if proof != t || rem != exp_rem {
                    bad("short polynomial: space result differs from time".into())
                } else {
                    ok()
                }
            }
            (_, o) => Res {
                ok: false,
                class: "violation",
                why: format!("short: space open_multi_points aborts where the time prover answers ({})", o.detail()),
            },
        }
    }
}

fn comb(v: &Value) -> Res {
    let nv = v["nv"].as_i64().unwrap() as usize;
    let d = v["D"].as_i64().unwrap() as usize;
    let deg = v["deg"].as_i64().unwrap() as usize;
    let exp: Vec<Vec<usize>> = v["out"]
        .as_array()
        .unwrap()
        .iter()
        .map(|s| ints(s).into_iter().map(|x| x as usize).collect())
        .collect();
    let original: Vec<usize> = (0..nv).flat_map(|x| vec![x; d]).collect();
    if original.len() == deg {
        // setup's special case: the iterator is not used
        return if exp == vec![original] { ok() } else { bad("special case differs".into()) };
    }
    match guarded_plain(|| ark_poly_commit::verif_api::pst13::combinations(original.clone(), deg)) {
        Out::Ok(got) if got == exp => ok(),
        Out::Ok(got) => {
            // the property: every multiset exactly once (none missing, none duplicated); the order in which a
            // private iterator yields them, and the order inside a multiset, are implementation details
            let norm = |l: &Vec<Vec<usize>>| {
                let mut l: Vec<Vec<usize>> = l.iter().map(|m| { let mut m = m.clone(); m.sort(); m }).collect();
                l.sort();
                l
            };
            if norm(&got) == norm(&exp) {
                Res { ok: true, class: "drift", why: format!("Combinations({}x{}, {}): same multisets, other order", nv, d, deg) }
            } else {
                bad(format!("Combinations({}x{}, {}) yields {} multisets, specification {} (or not the same ones)", nv, d, deg, got.len(), exp.len()))
            }
        }
        o => bad(format!("Combinations aborted: {}", o.detail())),
    }
}

fn terms_of(v: &Value) -> Vec<(F, SparseTerm)> {
    v.as_array()
        .unwrap()
        .iter()
        .map(|t| {
            let t = ints(t);
            let mut vars = vec![];
            if t[0] > 0 {
                vars.push((0usize, t[0] as usize));
            }
            if t[1] > 0 {
                vars.push((1usize, t[1] as usize));
            }
            (fi(t[2]), SparseTerm::new(vars))
        })
        .collect()
}

fn dap(v: &Value) -> Res {
    let p = MvPoly::<F>::from_coefficients_vec(2, terms_of(&v["p"]));
    let z: Vec<F> = ints(&v["z"]).into_iter().map(fi).collect();
    let w1 = MvPoly::<F>::from_coefficients_vec(2, terms_of(&v["w1"]));
    let w2 = MvPoly::<F>::from_coefficients_vec(2, terms_of(&v["w2"]));
    if p.evaluate(&z) != fi(v["value"].as_i64().unwrap()) {
        return bad("evaluation differs".into());
    }
    match guarded_plain(|| ark_poly_commit::verif_api::pst13::divide_at_point::<E381, MvPoly<F>>(&p, &z)) {
        Out::Ok(ws) => {
            if ws.len() != 2 {
                return bad(format!("{} quotients for 2 variables", ws.len()));
            }
            // The property demands an EXACT decomposition  p(X) - p(z) = sum_i (X_i - z_i) w_i(X)  whose
            // quotients stay within the key (degree < deg p); which exact decomposition the prover picks
            // is an implementation detail (a different exact one is drift, not a violation).
            let mut rng = rng_for("dap-identity", 0);
            for _ in 0..4 {
                let x: Vec<F> = (0..2).map(|_| F::rand(&mut rng)).collect();
                let lhs = p.evaluate(&x) - p.evaluate(&z);
                let rhs = (x[0] - z[0]) * ws[0].evaluate(&x) + (x[1] - z[1]) * ws[1].evaluate(&x);
                if lhs != rhs {
                    return bad(format!("quotient decomposition is not exact for p={:?} z={:?}", v["p"], v["z"]));
                }
            }
            let dp = p.degree();
            for w in ws.iter() {
                if !w.is_zero() && w.degree() + 1 > dp.max(1) {
                    return bad(format!("a quotient has degree {} for a dividend of degree {} (p={:?})", w.degree(), dp, v["p"]));
                }
            }
            if ws[0] != w1 || ws[1] != w2 {
                return Res { ok: true, class: "drift", why: format!("exact, but not the specification's quotients for p={:?} z={:?}", v["p"], v["z"]) };
            }
            ok()
        }
        o => bad(format!("divide_at_point aborted: {}", o.detail())),
    }
}

fn checkpoly(v: &Value) -> Res {
    let us: Vec<F> = ints(&v["us"]).into_iter().map(fi).collect();
    let exp: Vec<F> = ints(&v["coeffs"]).into_iter().map(fi).collect();
    let cp = SuccinctCheckPolynomial::<F>(us);
    let got = cp.compute_coeffs();
    if got != exp {
        return bad(format!("compute_coeffs differs for challenges {:?}", v["us"]));
    }
    for (z, e) in v["evals"].as_object().unwrap() {
        let zf = fi(z.parse::<i64>().unwrap());
        if cp.evaluate(zf) != fi(e.as_i64().unwrap()) {
            return bad(format!("evaluate({}) differs for challenges {:?}", z, v["us"]));
        }
    }
    ok()
}

fn pool(s: i64) -> LinearCombination<F> {
    let t = |c: i64, t: i64| {
        (fi(c), if t == 0 { LCTerm::One } else { LCTerm::PolyLabel(plabel(t)) })
    };
    let terms = match s {
        1 => vec![t(1, 1)],
        2 => vec![t(2, 1), t(-1, 2), t(3, 0)],
        3 => vec![t(0, 2), t(1, 2)],
        _ => vec![t(1, 1), t(2, 0), t(5, 0)],
    };
    let mut lc = LinearCombination::empty("lc");
    for x in terms {
        lc.push(x);
    }
    lc
}

fn lincomb(v: &Value) -> Res {
    let hist = v["hist"].as_array().unwrap();
    let mut lc = pool(hist[0][1].as_i64().unwrap());
    for h in hist.iter().skip(1) {
        let op = h[0].as_str().unwrap();
        let other = pool(h[1].as_i64().unwrap());
        let c = fi(h[2].as_i64().unwrap());
        match op {
            "add_c_lc" => lc += (c, &other),
            "sub_c_lc" => lc -= (c, &other),
            "add_lc" => lc += &other,
            "sub_lc" => lc -= &other,
            "add_c" => lc += c,
            "sub_c" => lc -= c,
            "mul_c" => lc *= c,
            _ => return bad("unknown op".into()),
        }
    }
    let exp: Vec<(F, LCTerm)> = v["lc"]
        .as_array()
        .unwrap()
        .iter()
        .map(|t| {
            let t = ints(t);
            (fi(t[0]), if t[1] == 0 { LCTerm::One } else { LCTerm::PolyLabel(plabel(t[1])) })
        })
        .collect();
    // The property is about MEANING: two combinations have the same value at every assignment of
    // polynomial evaluations iff the coefficients of each term sum to the same scalar.  The order and
    // grouping of the term list is an implementation detail (reported as drift, never as a violation).
    let canon = |ts: &[(F, LCTerm)]| -> std::collections::BTreeMap<String, F> {
        let mut m = std::collections::BTreeMap::new();
        for (c, t) in ts {
            let k = match t {
                LCTerm::One => "1".to_string(),
                LCTerm::PolyLabel(l) => l.clone(),
            };
            *m.entry(k).or_insert_with(F::zero) += *c;
        }
        m.retain(|_, c| !c.is_zero());
        m
    };
    if canon(&lc.terms) != canon(&exp) {
        return bad(format!("value of the combination differs after {:?}", v["hist"]));
    }
    if lc.terms != exp {
        return Res { ok: true, class: "drift", why: format!("same value, different term list after {:?}", v["hist"]) };
    }
    ok()
}

pub fn check_line(v: &Value) -> Res {
    match v["kind"].as_str().unwrap_or("") {
        "fold" => fold(v),
        "streamopen" => streamopen(v),
        "comb" => comb(v),
        "dap" => dap(v),
        "checkpoly" => checkpoly(v),
        "lincomb" => lincomb(v),
        k => bad(format!("unknown dump kind {}", k)),
    }
}

