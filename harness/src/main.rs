mod adapter;
mod beh;
mod columns;
mod common;
mod direct;
mod dumpcheck;
mod extra;
mod forge;
mod judge;
mod relation;
mod rngtrace;
mod keyextra;
mod keylayout;
mod session;
mod sizes;

use beh::*;
use common::*;
use std::io::{BufRead, Write};

fn run_one(b: &Beh) -> Verdict {
    fn go<A: adapter::Adapter>(b: &Beh) -> Obs {
        session::run_beh::<A>(b)
    }
    let obs = with_adapter!(b.scheme.as_str(), go, b);
    judge::judge(b, obs)
}

fn replay() {
    install_quiet_panic_hook();
    let stdin = std::io::stdin();
    let lines: Vec<String> = stdin
        .lock()
        .lines()
        .map(|l| l.unwrap())
        .filter(|l| !l.trim().is_empty())
        .collect();
    let behs: Vec<Beh> = lines
        .iter()
        .enumerate()
        .map(|(i, l)| {
            let mut b: Beh = serde_json::from_str(l)
                .unwrap_or_else(|e| panic!("bad behaviour line {}: {} :: {}", i, e, l));
            if b.id.is_empty() {
                b.id = format!("b{}", i);
            }
            b
        })
        .collect();
    #[cfg(feature = "parallel")]
    let verdicts: Vec<Verdict> = {
        use rayon::prelude::*;
        behs.par_iter().map(run_one).collect()
    };
    #[cfg(not(feature = "parallel"))]
    let verdicts: Vec<Verdict> = behs.iter().map(run_one).collect();
    let out = std::io::stdout();
    let mut out = out.lock();
    for v in verdicts {
        writeln!(out, "{}", serde_json::to_string(&v).unwrap()).unwrap();
    }
}

fn dumpcheck_cmd() {
    install_quiet_panic_hook();
    let stdin = std::io::stdin();
    let lines: Vec<serde_json::Value> = stdin
        .lock()
        .lines()
        .map(|l| l.unwrap())
        .filter(|l| !l.trim().is_empty())
        .map(|l| serde_json::from_str(&l).expect("bad dump line"))
        .collect();
    #[cfg(feature = "parallel")]
    let res: Vec<dumpcheck::Res> = {
        use rayon::prelude::*;
        lines.par_iter().map(dumpcheck::check_line).collect()
    };
    #[cfg(not(feature = "parallel"))]
    let res: Vec<dumpcheck::Res> = lines.iter().map(dumpcheck::check_line).collect();
    let out = std::io::stdout();
    let mut out = out.lock();
    for r in res {
        writeln!(out, "{}", serde_json::json!({"ok": r.ok, "class": r.class, "why": r.why})).unwrap();
    }
}

fn main() {
    let args: Vec<String> = std::env::args().collect();
    match args.get(1).map(|s| s.as_str()) {
        Some("replay") => replay(),
        Some("dumpcheck") => dumpcheck_cmd(),
        Some("pst13params") => {
            install_quiet_panic_hook();
            let stdin = std::io::stdin();
            let reqs: Vec<serde_json::Value> = stdin
                .lock()
                .lines()
                .map(|l| l.unwrap())
                .filter(|l| !l.trim().is_empty())
                .map(|l| serde_json::from_str(&l).expect("bad request"))
                .collect();
            #[cfg(feature = "parallel")]
            let res: Vec<serde_json::Value> = {
                use rayon::prelude::*;
                reqs.par_iter().map(extra::pst13params).collect()
            };
            #[cfg(not(feature = "parallel"))]
            let res: Vec<serde_json::Value> = reqs.iter().map(extra::pst13params).collect();
            for r in res {
                println!("{}", r);
            }
        }
        Some("columns") => {
            install_quiet_panic_hook();
            let uni: Vec<usize> = args.get(2).map(|s| s.split(',').filter_map(|x| x.parse().ok()).collect()).unwrap_or_default();
            let nvs: Vec<usize> = args.get(3).map(|s| s.split(',').filter_map(|x| x.parse().ok()).collect()).unwrap_or_default();
            let batches: Vec<Vec<usize>> = args.get(4).map(|s| s.split(',').map(|b| b.split('+').filter_map(|x| x.parse().ok()).collect()).collect()).unwrap_or_default();
            for r in columns::columns(&uni, &nvs, &batches) {
                println!("{}", r);
            }
        }
        Some("calct") => {
            install_quiet_panic_hook();
            let stdin = std::io::stdin();
            let cases: Vec<serde_json::Value> = stdin.lock().lines().map(|l| l.unwrap()).filter(|l| !l.trim().is_empty())
                .map(|l| serde_json::from_str(&l).expect("bad case")).collect();
            for r in columns::calct(&cases) {
                println!("{}", r);
            }
        }
        Some("encoding") => {
            install_quiet_panic_hook();
            let n: usize = args.get(2).and_then(|s| s.parse().ok()).unwrap_or(20);
            for r in columns::encoding(n) {
                println!("{}", r);
            }
        }
        Some("keylayout") => {
            install_quiet_panic_hook();
            let stdin = std::io::stdin();
            let reqs: Vec<serde_json::Value> = stdin.lock().lines().map(|l| l.unwrap()).filter(|l| !l.trim().is_empty())
                .map(|l| serde_json::from_str(&l).expect("bad layout")).collect();
            #[cfg(feature = "parallel")]
            let res: Vec<serde_json::Value> = {
                use rayon::prelude::*;
                reqs.par_iter().map(|v| match guarded_plain(|| keylayout::check_layout(v)) {
                    Out::Ok(x) => x,
                    o => serde_json::json!({"ok": false, "why": format!("aborted: {}", o.detail())}),
                }).collect()
            };
            #[cfg(not(feature = "parallel"))]
            let res: Vec<serde_json::Value> = reqs.iter().map(keylayout::check_layout).collect();
            for r in res {
                println!("{}", r);
            }
        }
        Some("c08extra") => {
            install_quiet_panic_hook();
            let thorough = args.get(2).map(|s| s == "thorough").unwrap_or(false);
            for r in keyextra::c08(thorough) {
                println!("{}", r);
            }
        }
        Some("sizes") => {
            install_quiet_panic_hook();
            let stdin = std::io::stdin();
            let reqs: Vec<serde_json::Value> = stdin.lock().lines().map(|l| l.unwrap()).filter(|l| !l.trim().is_empty())
                .map(|l| serde_json::from_str(&l).expect("bad size case")).collect();
            #[cfg(feature = "parallel")]
            let res: Vec<serde_json::Value> = {
                use rayon::prelude::*;
                reqs.par_iter().map(|v| match guarded_plain(|| sizes::check_size(v)) {
                    Out::Ok(x) => x,
                    o => serde_json::json!({"ok": false, "why": format!("aborted: {}", o.detail())}),
                }).collect()
            };
            #[cfg(not(feature = "parallel"))]
            let res: Vec<serde_json::Value> = reqs.iter().map(sizes::check_size).collect();
            for r in res {
                println!("{}", r);
            }
        }
        Some("rngtrace") => {
            install_quiet_panic_hook();
            let max_h: usize = args.get(2).and_then(|s| s.parse().ok()).unwrap_or(2);
            let (events, results) = rngtrace::run(max_h);
            for e in events {
                println!("{}", serde_json::json!({"trace": e}));
            }
            for r in results {
                println!("{}", serde_json::json!({"result": r}));
            }
        }
        Some("direct") => {
            install_quiet_panic_hook();
            let stdin = std::io::stdin();
            let reqs: Vec<serde_json::Value> = stdin.lock().lines().map(|l| l.unwrap()).filter(|l| !l.trim().is_empty())
                .map(|l| serde_json::from_str(&l).expect("bad direct behaviour")).collect();
            let one = |v: &serde_json::Value| match guarded_plain(|| direct::run_line(v)) {
                Out::Ok(x) => x,
                o => serde_json::json!({"id": v["id"], "prop": v["prop"], "scheme": v["api"], "verdict": "skip",
                                        "why": format!("harness aborted: {}", o.detail()), "obs": {"ops": []}}),
            };
            #[cfg(feature = "parallel")]
            let res: Vec<serde_json::Value> = {
                use rayon::prelude::*;
                reqs.par_iter().map(one).collect()
            };
            #[cfg(not(feature = "parallel"))]
            let res: Vec<serde_json::Value> = reqs.iter().map(one).collect();
            for r in res {
                println!("{}", r);
            }
        }
        Some("helpers") => {
            install_quiet_panic_hook();
            let n: usize = args.get(2).and_then(|s| s.parse().ok()).unwrap_or(100);
            for r in extra::helpers(n) {
                println!("{}", r);
            }
        }
        _ => {
            eprintln!("usage: pcv replay < behaviours.ndjson");
            std::process::exit(2);
        }
    }
}
