//! C08 / C09: the real keys and commitments against the layout and recipes of spec/KeyLayout.tla.
use crate::adapter::*;
use crate::common::*;
use ark_ec::{pairing::Pairing, AffineRepr, CurveGroup};
use ark_ff::{Field, One, PrimeField, UniformRand, Zero};
use ark_poly::{DenseUVPolynomial, Polynomial};
use ark_poly_commit::{
    kzg10, ipa_pc, marlin_pc, sonic_pc, LabeledPolynomial, PCCommitterKey, PCUniversalParams,
    PCVerifierKey, PolynomialCommitment,
};
use ark_std::rand::RngCore;
use rand_chacha::ChaCha20Rng;
use serde_json::{json, Value};
use std::collections::HashMap;
use std::sync::{Mutex, OnceLock};

type E = E381;
type F = Fr381;
type G1 = <E as Pairing>::G1Affine;
type G2 = <E as Pairing>::G2Affine;

fn fail(why: String) -> Value {
    json!({"ok": false, "why": why})
}

fn kzg_pp(d: usize, g2: bool) -> kzg10::UniversalParams<E> {
    static C: OnceLock<Mutex<HashMap<(usize, bool), kzg10::UniversalParams<E>>>> = OnceLock::new();
    let c = C.get_or_init(|| Mutex::new(HashMap::new()));
    if let Some(p) = c.lock().unwrap().get(&(d, g2)) {
        return p.clone();
    }
    let mut rng = rng_for("kl-setup", (d * 2 + g2 as usize) as u64);
    let pp = if g2 {
        SonicPC::setup(d, None, &mut rng).unwrap()
    } else {
        MarlinPC::setup(d, None, &mut rng).unwrap()
    };
    c.lock().unwrap().insert((d, g2), pp.clone());
    pp
}

/// Every published power is the stated power of one trapdoor (checked through pairings).
fn kzg_pp_consistent(pp: &kzg10::UniversalParams<E>, d: usize, g2: bool) -> Result<usize, String> {
    let mut n = 0;
    if pp.powers_of_g.len() != d + 1 {
        return Err(format!("powers_of_g has {} elements for max_degree {}", pp.powers_of_g.len(), d));
    }
    if pp.powers_of_gamma_g.len() != d + 2 {
        return Err(format!("powers_of_gamma_g has {} elements for max_degree {}", pp.powers_of_gamma_g.len(), d));
    }
    if pp.max_degree() != d {
        return Err("max_degree() misreports".into());
    }
    if pp.powers_of_g[0].is_zero() || pp.h.is_zero() || pp.powers_of_gamma_g[&0].is_zero() {
        return Err("identity generator".into());
    }
    if pp.powers_of_g[0] == pp.powers_of_gamma_g[&0] {
        return Err("g and gamma_g coincide".into());
    }
    for i in 0..d {
        if E::pairing(pp.powers_of_g[i + 1], pp.h) != E::pairing(pp.powers_of_g[i], pp.beta_h) {
            return Err(format!("powers_of_g[{}] is not beta * powers_of_g[{}]", i + 1, i));
        }
        n += 1;
    }
    for i in 0..=d {
        if E::pairing(pp.powers_of_gamma_g[&(i + 1)], pp.h) != E::pairing(pp.powers_of_gamma_g[&i], pp.beta_h) {
            return Err(format!("powers_of_gamma_g[{}] is not beta * powers_of_gamma_g[{}]", i + 1, i));
        }
        n += 1;
    }
    if g2 {
        if pp.neg_powers_of_h.len() != d + 1 || pp.neg_powers_of_h[&0] != pp.h {
            return Err("neg_powers_of_h has the wrong size or does not start at h".into());
        }
        for i in 0..d {
            if E::pairing(pp.powers_of_g[1], pp.neg_powers_of_h[&(i + 1)]) != E::pairing(pp.powers_of_g[0], pp.neg_powers_of_h[&i]) {
                return Err(format!("neg_powers_of_h[{}] is not beta^-1 * neg_powers_of_h[{}]", i + 1, i));
            }
            n += 1;
        }
    } else if !pp.neg_powers_of_h.is_empty() {
        return Err("unexpected negative powers".into());
    }
    let ph: <E as Pairing>::G2Prepared = pp.h.into();
    let pbh: <E as Pairing>::G2Prepared = pp.beta_h.into();
    if format!("{:?}", ph) != format!("{:?}", pp.prepared_h) || format!("{:?}", pbh) != format!("{:?}", pp.prepared_beta_h) {
        return Err("prepared G2 elements are not those of h / beta_h".into());
    }
    Ok(n)
}

fn entry_g1(pp: &kzg10::UniversalParams<E>, e: &Value) -> Option<G1> {
    let base = e[0].as_str()?;
    let x = e[1].as_i64()?;
    match base {
        "g" => pp.powers_of_g.get(x as usize).cloned(),
        "gamma" => pp.powers_of_gamma_g.get(&(x as usize)).cloned(),
        _ => None,
    }
}

fn table_matches(pp: &kzg10::UniversalParams<E>, spec: &Value, real: &[G1], name: &str) -> Result<usize, String> {
    let s = spec.as_array().unwrap();
    if s.len() != real.len() {
        return Err(format!("{} has {} elements, the layout says {}", name, real.len(), s.len()));
    }
    for (i, (e, r)) in s.iter().zip(real).enumerate() {
        match entry_g1(pp, e) {
            Some(x) if x == *r => {}
            _ => return Err(format!("{}[{}] is not the parameter element {:?}", name, i, e)),
        }
    }
    Ok(s.len())
}

fn msm(recipe: &Value, coeffs: &[F], lookup: &dyn Fn(&str, usize, usize) -> G1) -> <E as Pairing>::G1 {
    let mut acc = <E as Pairing>::G1::zero();
    for r in recipe.as_array().unwrap() {
        let tab = r[0].as_str().unwrap();
        let idx = r[1].as_u64().unwrap() as usize;
        let k = r[2].as_u64().unwrap() as usize;
        let w = r.get(3).and_then(|x| x.as_u64()).unwrap_or(0) as usize;
        if k < coeffs.len() {
            acc += lookup(tab, idx, w).into_group() * coeffs[k];
        }
    }
    acc
}

fn shape_poly(shape: &Value, rng: &mut ChaCha20Rng) -> UniPoly<F> {
    let deg = shape["deg"].as_u64().unwrap() as usize;
    let lz = shape["lz"].as_u64().unwrap() as usize;
    let mut c: Vec<F> = (0..=deg).map(|_| loop { let x = F::rand(rng); if !x.is_zero() { break x; } }).collect();
    for x in c.iter_mut().take(lz) {
        *x = F::zero();
    }
    UniPoly::from_coefficients_vec(c)
}

fn opt(v: &Value) -> Option<usize> {
    let x = v.as_i64().unwrap();
    if x < 0 { None } else { Some(x as usize) }
}

fn prepared_is_doublings(base: G1, table: &[G1]) -> bool {
    let mut cur = base.into_group();
    for t in table {
        if cur.into_affine() != *t {
            return false;
        }
        cur.double_in_place();
    }
    table.len() == F::MODULUS_BIT_SIZE as usize
}
use ark_ec::AdditiveGroup;

fn marlin_like(v: &Value, sonic: bool) -> Value {
    let cfg = &v["cfg"];
    let lay = &v["lay"];
    let d = cfg["D"].as_u64().unwrap() as usize;
    let sup = cfg["sup"].as_u64().unwrap() as usize;
    let hid = cfg["hid"].as_u64().unwrap() as usize;
    let nobounds = cfg["nobounds"].as_bool().unwrap();
    let bounds: Vec<usize> = cfg["bounds"].as_array().unwrap().iter().map(|x| x.as_u64().unwrap() as usize).collect();
    let pp = kzg_pp(d, sonic);
    let mut checks = match kzg_pp_consistent(&pp, d, sonic) {
        Ok(n) => n,
        Err(e) => return fail(format!("universal parameters: {}", e)),
    };
    let b = if nobounds { None } else { Some(bounds.as_slice()) };
    let spec_bounds: Vec<usize> = lay["bounds"].as_array().unwrap().iter().map(|x| x.as_u64().unwrap() as usize).collect();
    let t = &lay["tables"];
    let mut rng = rng_for("kl-poly", (d * 100 + sup * 10 + hid) as u64);
    if !sonic {
        let (ck, vk) = match guarded(|| MarlinPC::trim(&pp, sup, hid, b)) {
            Out::Ok(k) => k,
            o => return fail(format!("trim refused an in-domain request: {}", o.detail())),
        };
        let r = (|| -> Result<usize, String> {
            let mut n = table_matches(&pp, &t["ck_powers"], &ck.powers, "ck.powers")?;
            n += table_matches(&pp, &t["ck_gamma"], &ck.powers_of_gamma_g, "ck.powers_of_gamma_g")?;
            match (&ck.shifted_powers, lay["has_shifted"].as_bool().unwrap()) {
                (Some(sp), true) => n += table_matches(&pp, &t["ck_shifted"], sp, "ck.shifted_powers")?,
                (None, false) => {}
                _ => return Err("presence of shifted powers differs from the layout".into()),
            }
            let eb = ck.enforced_degree_bounds.clone();
            let want = if !lay["has_bounds"].as_bool().unwrap() { None } else { Some(spec_bounds.clone()) };
            if eb != want {
                return Err(format!("enforced bounds {:?}, layout {:?}", eb, want));
            }
            let vs: Vec<(usize, G1)> = vk.degree_bounds_and_shift_powers.clone().unwrap_or_default();
            if vs.len() != spec_bounds.len() && lay["has_shifted"].as_bool().unwrap() {
                return Err("number of verifier shift powers differs".into());
            }
            for (k, (dd, g)) in vs.iter().enumerate() {
                if *dd != spec_bounds[k] || Some(*g) != entry_g1(&pp, &t["vk_shift"][k]) {
                    return Err(format!("verifier shift element for bound {} is not the layout's", dd));
                }
                if vk.get_shift_power(*dd) != Some(*g) {
                    return Err("get_shift_power disagrees with the table".into());
                }
                n += 1;
            }
            if vk.vk.g != pp.powers_of_g[0] || vk.vk.gamma_g != pp.powers_of_gamma_g[&0] || vk.vk.h != pp.h || vk.vk.beta_h != pp.beta_h {
                return Err("verifier key generators are not the parameters'".into());
            }
            if ck.supported_degree() != sup || vk.supported_degree() != sup || ck.max_degree() != d || vk.max_degree() != d {
                return Err("supported / max degree reports wrong".into());
            }
            let pvk = kzg10::PreparedVerifierKey::<E>::prepare(&vk.vk);
            if !prepared_is_doublings(vk.vk.g, &pvk.prepared_g) {
                return Err("prepared_g is not the table of successive doublings of g".into());
            }
            Ok(n)
        })();
        match r {
            Ok(n) => checks += n,
            Err(e) => return fail(format!("marlin trim: {}", e)),
        }
        // commitments against the recipes
        for c in v["commits"].as_array().unwrap() {
            let shape = &c["shape"];
            let p = shape_poly(shape, &mut rng);
            let bound = opt(&shape["bound"]);
            let h = opt(&shape["hid"]);
            let lp = LabeledPolynomial::new("p".into(), p.clone(), bound, None);
            let (cm, _) = match guarded(|| MarlinPC::commit(&ck, std::iter::once(&lp), None)) {
                Out::Ok(x) => x,
                o => return fail(format!("commit refused in-domain shape {:?}: {}", shape, o.detail())),
            };
            let look = |tab: &str, idx: usize, _w: usize| -> G1 {
                match tab {
                    "ck_powers" => ck.powers[idx - 1],
                    "ck_shifted" => ck.shifted_powers.as_ref().unwrap()[idx - 1],
                    _ => ck.powers_of_gamma_g[idx - 1],
                }
            };
            if cm[0].commitment().comm.0 != msm(&c["plain"], &p.coeffs, &look).into_affine() {
                return fail(format!("commitment is not the sum over the recipe for shape {:?}", shape));
            }
            match (cm[0].commitment().shifted_comm, bound) {
                (Some(s), Some(_)) => {
                    if s.0 != msm(&c["shifted"], &p.coeffs, &look).into_affine() {
                        return fail(format!("shifted commitment is not the sum over the shifted recipe for shape {:?}", shape));
                    }
                }
                (None, None) => {}
                _ => return fail("presence of the shifted commitment differs from the bound".into()),
            }
            checks += 1;
            if let Some(h) = h {
                let lph = LabeledPolynomial::new("p".into(), p.clone(), bound, Some(h));
                let mut r = LogRng::new(7 + h as u64);
                let (ch, st) = match guarded(|| MarlinPC::commit(&ck, std::iter::once(&lph), Some(&mut r as &mut dyn RngCore))) {
                    Out::Ok(x) => x,
                    o => return fail(format!("hiding commit refused in-domain shape {:?}: {}", shape, o.detail())),
                };
                let bl = &st[0].rand.blinding_polynomial.coeffs;
                if bl.len() < h + 2 {
                    return fail(format!("blinding polynomial has {} coefficients for hiding bound {}", bl.len(), h));
                }
                let diff = ch[0].commitment().comm.0.into_group() - cm[0].commitment().comm.0.into_group();
                if diff != msm(&c["blind"], bl, &look) {
                    return fail(format!("hiding commitment - plain commitment is not the blinding recipe for shape {:?}", shape));
                }
                if let (Some(sh), Some(s0), Some(sr)) = (ch[0].commitment().shifted_comm, cm[0].commitment().shifted_comm, st[0].shifted_rand.as_ref()) {
                    let diff = sh.0.into_group() - s0.0.into_group();
                    if diff != msm(&c["blind"], &sr.blinding_polynomial.coeffs, &look) {
                        return fail("shifted hiding commitment is not blinded by its own randomness under the gamma powers".into());
                    }
                }
                checks += 1;
            }
        }
        return json!({"ok": true, "why": "", "checks": checks});
    }
    // ---------------- sonic
    let (ck, vk) = match guarded(|| SonicPC::trim(&pp, sup, hid, b)) {
        Out::Ok(k) => k,
        o => return fail(format!("trim refused an in-domain request: {}", o.detail())),
    };
    let r = (|| -> Result<usize, String> {
        let mut n = table_matches(&pp, &t["ck_powers"], &ck.powers_of_g, "ck.powers_of_g")?;
        n += table_matches(&pp, &t["ck_gamma"], &ck.powers_of_gamma_g, "ck.powers_of_gamma_g")?;
        match (&ck.shifted_powers_of_g, lay["has_shifted"].as_bool().unwrap()) {
            (Some(sp), true) => n += table_matches(&pp, &t["ck_shifted"], sp, "ck.shifted_powers_of_g")?,
            (None, false) => {}
            _ => return Err("presence of shifted powers differs from the layout".into()),
        }
        if let Some(m) = &ck.shifted_powers_of_gamma_g {
            for (k, dd) in spec_bounds.iter().enumerate() {
                let w = m.get(dd).ok_or("missing gamma window")?;
                n += table_matches(&pp, &lay["gamma_windows"][k], w, "ck.shifted_powers_of_gamma_g")?;
            }
        }
        let want = if !lay["has_bounds"].as_bool().unwrap() { None } else { Some(spec_bounds.clone()) };
        if ck.enforced_degree_bounds != want {
            return Err(format!("enforced bounds {:?}, layout {:?}", ck.enforced_degree_bounds, want));
        }
        let vs: Vec<(usize, G2)> = vk.degree_bounds_and_neg_powers_of_h.clone().unwrap_or_default();
        for (k, (dd, g)) in vs.iter().enumerate() {
            let e = -t["vk_shift"][k][1].as_i64().unwrap();
            if *dd != spec_bounds[k] || *g != pp.neg_powers_of_h[&(e as usize)] {
                return Err(format!("verifier G2 element for bound {} is not the layout's", dd));
            }
            n += 1;
        }
        if vk.g != pp.powers_of_g[0] || vk.gamma_g != pp.powers_of_gamma_g[&0] || vk.h != pp.h || vk.beta_h != pp.beta_h {
            return Err("verifier key generators are not the parameters'".into());
        }
        if ck.supported_degree() != sup || vk.supported_degree() != sup || ck.max_degree() != d || vk.max_degree() != d {
            return Err("supported / max degree reports wrong".into());
        }
        Ok(n)
    })();
    match r {
        Ok(n) => checks += n,
        Err(e) => return fail(format!("sonic trim: {}", e)),
    }
    for c in v["commits"].as_array().unwrap() {
        let shape = &c["shape"];
        let p = shape_poly(shape, &mut rng);
        let bound = opt(&shape["bound"]);
        let h = opt(&shape["hid"]);
        let lp = LabeledPolynomial::new("p".into(), p.clone(), bound, None);
        let (cm, _) = match guarded(|| SonicPC::commit(&ck, std::iter::once(&lp), None)) {
            Out::Ok(x) => x,
            o => return fail(format!("commit refused in-domain shape {:?}: {}", shape, o.detail())),
        };
        let look = |tab: &str, idx: usize, w: usize| -> G1 {
            match tab {
                "ck_powers" => ck.powers_of_g[idx - 1],
                "ck_shifted" => ck.shifted_powers_of_g.as_ref().unwrap()[idx - 1],
                "gamma_window" => ck.shifted_powers_of_gamma_g.as_ref().unwrap()[&spec_bounds[w - 1]][idx - 1],
                _ => ck.powers_of_gamma_g[idx - 1],
            }
        };
        let recipe = if bound.is_some() { &c["shifted"] } else { &c["plain"] };
        if cm[0].commitment().0 != msm(recipe, &p.coeffs, &look).into_affine() {
            return fail(format!("commitment is not the sum over the recipe for shape {:?}", shape));
        }
        checks += 1;
        if let Some(h) = h {
            let lph = LabeledPolynomial::new("p".into(), p.clone(), bound, Some(h));
            let mut r = LogRng::new(9 + h as u64);
            let (ch, st) = match guarded(|| SonicPC::commit(&ck, std::iter::once(&lph), Some(&mut r as &mut dyn RngCore))) {
                Out::Ok(x) => x,
                o => return fail(format!("hiding commit refused in-domain shape {:?}: {}", shape, o.detail())),
            };
            let bl = &st[0].blinding_polynomial.coeffs;
            if bl.len() < h + 2 {
                return fail(format!("blinding polynomial has {} coefficients for hiding bound {}", bl.len(), h));
            }
            let diff = ch[0].commitment().0.into_group() - cm[0].commitment().0.into_group();
            if diff != msm(&c["blind"], bl, &look) {
                return fail(format!("hiding commitment - plain commitment is not the blinding recipe for shape {:?}", shape));
            }
            checks += 1;
        }
    }
    json!({"ok": true, "why": "", "checks": checks})
}

fn ipa(v: &Value) -> Value {
    use blake2::Blake2s256;
    use digest::Digest;
    let cfg = &v["cfg"];
    let lay = &v["lay"];
    let d = cfg["D"].as_u64().unwrap() as usize;
    let sup = cfg["sup"].as_u64().unwrap() as usize;
    let mut rng = rng_for("kl-ipa", (d * 10 + sup) as u64);
    let pp = IpaPC::setup(d, None, &mut rng).unwrap();
    let maxd = lay["max"].as_u64().unwrap() as usize;
    if pp.max_degree() != maxd || pp.comm_key.len() != maxd + 1 {
        return fail(format!("IPA parameters report max_degree {} for request {}, layout {}", pp.max_degree(), d, maxd));
    }
    // independent re-derivation of the transparent generators from the protocol seed
    let derive = |i: u64| -> GEd {
        let mut hash = Blake2s256::digest([b"PC-DL-2020".as_ref(), &i.to_le_bytes()].concat().as_slice());
        let mut g = GEd::from_random_bytes(&hash);
        let mut j = 0u64;
        while g.is_none() {
            let mut bytes = b"PC-DL-2020".to_vec();
            bytes.extend(i.to_le_bytes());
            bytes.extend(j.to_le_bytes());
            hash = Blake2s256::digest(bytes.as_slice());
            g = GEd::from_random_bytes(&hash);
            j += 1;
        }
        g.unwrap().mul_by_cofactor_to_group().into_affine()
    };
    let mut all: Vec<GEd> = pp.comm_key.clone();
    all.push(pp.s);
    all.push(pp.h);
    for (i, g) in all.iter().enumerate() {
        if *g != derive(i as u64) {
            return fail(format!("generator {} is not derived from the protocol seed as specified", i));
        }
        if g.is_zero() || !g.is_on_curve() || !g.is_in_correct_subgroup_assuming_on_curve() {
            return fail(format!("generator {} is invalid", i));
        }
    }
    for i in 0..all.len() {
        for j in 0..i {
            if all[i] == all[j] {
                return fail(format!("generators {} and {} coincide", i, j));
            }
        }
    }
    let pp2 = IpaPC::setup(d, None, &mut rng_for("other", 5)).unwrap();
    if pp2.comm_key != pp.comm_key || pp2.h != pp.h || pp2.s != pp.s {
        return fail("two setups give different generators".into());
    }
    let (ck, vk) = match guarded(|| IpaPC::trim(&pp, sup, 0, None)) {
        Out::Ok(k) => k,
        o => return fail(format!("trim refused: {}", o.detail())),
    };
    let esup = lay["supported"].as_u64().unwrap() as usize;
    if PCCommitterKey::supported_degree(&ck) != esup || PCVerifierKey::supported_degree(&vk) != esup || ck.comm_key[..] != pp.comm_key[..=esup] || ck.h != pp.h || ck.s != pp.s
        || vk.comm_key != ck.comm_key || PCCommitterKey::max_degree(&ck) != maxd {
        return fail("trimmed IPA keys are not the prefix of the parameters / misreport degrees".into());
    }
    let mut checks = all.len();
    for c in v["commits"].as_array().unwrap() {
        let shape = &c["shape"];
        let deg = shape["deg"].as_u64().unwrap() as usize;
        let lz = shape["lz"].as_u64().unwrap() as usize;
        let mut co: Vec<FrEd> = (0..=deg).map(|_| loop { let x = FrEd::rand(&mut rng); if !x.is_zero() { break x; } }).collect();
        for x in co.iter_mut().take(lz) {
            *x = FrEd::zero();
        }
        let p = UniPoly::<FrEd>::from_coefficients_vec(co);
        let bound = opt(&shape["bound"]);
        let h = opt(&shape["hid"]);
        let lp = LabeledPolynomial::new("p".into(), p.clone(), bound, h);
        let mut r = LogRng::new(3);
        let (cm, st) = match guarded(|| IpaPC::commit(&ck, std::iter::once(&lp), Some(&mut r as &mut dyn RngCore))) {
            Out::Ok(x) => x,
            o => return fail(format!("commit refused in-domain shape {:?}: {}", shape, o.detail())),
        };
        let sum = |recipe: &Value| -> <GEd as AffineRepr>::Group {
            let mut acc = <GEd as AffineRepr>::Group::zero();
            for r in recipe.as_array().unwrap() {
                let idx = r[1].as_u64().unwrap() as usize;
                let k = r[2].as_u64().unwrap() as usize;
                if k < p.coeffs.len() {
                    acc += ck.comm_key[idx - 1].into_group() * p.coeffs[k];
                }
            }
            acc
        };
        let blind = if h.is_some() { ck.s.into_group() * st[0].rand } else { <GEd as AffineRepr>::Group::zero() };
        if h.is_none() && !st[0].rand.is_zero() {
            return fail("non-hiding IPA commitment carries randomness".into());
        }
        if cm[0].commitment().comm.into_group() != sum(&c["plain"]) + blind {
            return fail(format!("IPA commitment is not the sum over the recipe (+ rand * s) for shape {:?}", shape));
        }
        match (cm[0].commitment().shifted_comm, bound) {
            (Some(s), Some(_)) => {
                let sb = match (h, st[0].shifted_rand) {
                    (Some(_), Some(x)) => ck.s.into_group() * x,
                    (None, None) => <GEd as AffineRepr>::Group::zero(),
                    (Some(_), None) => return fail("hiding bounded IPA commitment without shifted randomness".into()),
                    (None, Some(x)) => ck.s.into_group() * x,
                };
                if s.into_group() != sum(&c["shifted"]) + sb {
                    return fail(format!("IPA shifted commitment is not the sum over the shifted recipe for shape {:?}", shape));
                }
            }
            (None, None) => {}
            _ => return fail("presence of the shifted commitment differs from the bound".into()),
        }
        checks += 1;
    }
    json!({"ok": true, "why": "", "checks": checks})
}

fn streaming(v: &Value) -> Value {
    use ark_poly_commit::streaming_kzg::{CommitterKey, CommitterKeyStream, VerifierKey};
    use ark_poly_commit::verif_api::streaming_kzg as sk;
    use ark_std::iterable::Reverse;
    let cfg = &v["cfg"];
    let d = cfg["D"].as_u64().unwrap() as usize;
    let hid = cfg["hid"].as_u64().unwrap() as usize;
    let mut rng = rng_for("kl-stream", d as u64);
    let ck = CommitterKey::<E>::new(d, hid + 1, &mut rng);
    let g = sk::ck_powers_of_g(&ck);
    let g2 = sk::ck_powers_of_g2(&ck);
    let n2 = v["lay"]["tables"]["vk_shift"].as_array().unwrap().len();
    if g.len() != d + 1 || g2.len() != n2 {
        return fail(format!("key has {} G1 / {} G2 powers for degree {} and {} evaluation points", g.len(), g2.len(), d, hid + 1));
    }
    for i in 0..d {
        if E::pairing(g[i + 1], g2[0]) != E::pairing(g[i], g2[1]) {
            return fail(format!("powers_of_g[{}] is not tau * powers_of_g[{}]", i + 1, i));
        }
    }
    for i in 0..(n2 - 1) {
        if E::pairing(g[1], g2[i]) != E::pairing(g[0], g2[i + 1]) {
            return fail(format!("powers_of_g2[{}] is not tau * powers_of_g2[{}]", i + 1, i));
        }
    }
    let vk = VerifierKey::from(&ck);
    let (vg, vg2) = sk::vk_powers(&vk);
    if vg2 != g2 || vg != &g[..(n2 - 1).min(g.len())] {
        return fail("verifier key is not the prefix of the committer key".into());
    }
    let _ = hid;
    if ck.max_eval_points() != n2 - 1 {
        return fail("max_eval_points misreports".into());
    }
    let mut checks = d + hid + 2;
    let space = CommitterKeyStream::from(&ck);
    for c in v["commits"].as_array().unwrap() {
        let p = shape_poly(&c["shape"], &mut rng);
        let tc = ck.commit(&p.coeffs);
        let mut acc = <E as Pairing>::G1::zero();
        for r in c["plain"].as_array().unwrap() {
            let idx = r[1].as_u64().unwrap() as usize;
            let k = r[2].as_u64().unwrap() as usize;
            if k < p.coeffs.len() {
                acc += g[idx - 1].into_group() * p.coeffs[k];
            }
        }
        if sk::commitment_point(&tc) != acc.into_affine() {
            return fail("time commitment is not the sum over the recipe".into());
        }
        let stream = Reverse(p.coeffs.as_slice());
        if space.commit(&stream) != tc {
            return fail("space commitment differs from the time commitment".into());
        }
        checks += 1;
    }
    json!({"ok": true, "why": "", "checks": checks})
}

pub fn check_layout(v: &Value) -> Value {
    match v["cfg"]["s"].as_str().unwrap_or("") {
        "marlin" => marlin_like(v, false),
        "sonic" => marlin_like(v, true),
        "ipa" => ipa(v),
        "streaming" => streaming(v),
        s => fail(format!("unknown scheme {}", s)),
    }
}

#[allow(dead_code)]
fn _keep(_: &marlin_pc::CommitterKey<E>, _: &sonic_pc::CommitterKey<E>, _: &ipa_pc::CommitterKey<GEd>) -> F {
    F::one().pow([1u64])
}
