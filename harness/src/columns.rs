//! C13: records of honest linear-code openings (for validation against spec/Columns.tla),
//! `calculate_t` on the specification's grid, encoding linearity / declared length, refusals.
use crate::adapter::*;
use crate::common::*;
use ark_crypto_primitives::sponge::CryptographicSponge;
use ark_ff::{PrimeField, UniformRand, Zero};
use ark_poly::Polynomial;
use ark_poly_commit::linear_codes::{LinCodeParametersInfo, LinearEncode};
use ark_poly_commit::verif_api::linear_codes as lc;
use ark_poly_commit::{LabeledPolynomial, PolynomialCommitment};
use ark_serialize::CanonicalSerialize;
use serde_json::{json, Value};

type F = Fr381;

macro_rules! record_fn {
    ($fname:ident, $A:ty, $L:ty, $decl:expr, $mk:expr) => {
        /// One `open` call over polynomials of the given sizes (one record per polynomial).  `custom` =
        /// (security parameter, inverse rate) of parameters built through the public constructor instead of
        /// `setup`; the DECLARED security parameter and distance (from the constructor arguments / the scheme's
        /// published defaults, never read back from the key) travel with the record.
        fn $fname(scheme: &str, sizes: &[usize], beh_nv: i64, custom: Option<(usize, usize)>) -> Vec<Value> {
            let size = sizes[0];
            let tag = sizes.iter().map(|x| x.to_string()).collect::<Vec<_>>().join("+")
                + &custom.map(|(l, r)| format!("@lam{}rho{}", l, r)).unwrap_or_default();
            let (dlam, dd0, dd1): (usize, usize, usize) = $decl(custom);
            let mut out = vec![];
            let mut rng = rng_for("columns", size as u64 + 1000 * sizes.len() as u64);
            let maxsize = *sizes.iter().max().unwrap();
            let beh = crate::beh::Beh {
                id: format!("col-{}-{}", scheme, tag),
                prop: "C13".into(),
                scheme: scheme.into(),
                max_degree: maxsize as i64,
                num_vars: beh_nv,
                supported: maxsize as i64,
                hiding: 0,
                bounds: vec![],
                nobounds: true,
                polys: vec![],
                rng: false, wf: true, note: String::new(), vsupported: -1,
                ops: vec![],
                adv: vec![],
                expect: Default::default(),
                ser: vec![],
                tag: String::new(),
            };
            let err = |w: String| vec![json!({"scheme": scheme, "size": tag.clone(), "error": w})];
            let pp = match custom {
                None => match crate::session::cached_setup::<$A>(maxsize as i64, beh_nv) {
                    Out::Ok(p) => p,
                    o => return err(format!("setup: {}", o.detail())),
                },
                Some((l, r)) => match $mk(l, r) {
                    Some(p) => p,
                    None => return vec![],
                },
            };
            let (ck, vk) = match guarded(|| <$A as Adapter>::PC::trim(&pp, maxsize, 0, None)) {
                Out::Ok(k) => k,
                o => return err(format!("trim: {}", o.detail())),
            };
            let lps: Vec<_> = sizes.iter().enumerate().map(|(i, sz)| {
                let spec = crate::beh::PolySpec { l: i as i64 + 1, cls: "full".into(), deg: *sz as i64, lz: 0, bound: -1, hid: -1 };
                let p = <$A as Adapter>::make_poly(&spec, &beh, &mut rng);
                LabeledPolynomial::new(plabel(i as i64 + 1), p, None, None)
            }).collect();
            let (comms, states) = match guarded(|| <$A as Adapter>::PC::commit(&ck, lps.iter(), None)) {
                Out::Ok(c) => c,
                o => return err(format!("commit: {}", o.detail())),
            };
            let point = <$A as Adapter>::make_point(1, &beh);
            let sp0 = LogSponge::<F>::fresh();
            let mut sp = sp0.clone();
            let proof = match guarded(|| <$A as Adapter>::PC::open(&ck, lps.iter(), comms.iter(), &point, &mut sp, states.iter(), None)) {
                Out::Ok(p) => p,
                o => return err(format!("open: {}", o.detail())),
            };
            if proof.len() != sizes.len() {
                return err(format!("{} proof entries for {} polynomials", proof.len(), sizes.len()));
            }
            let accept = {
                let mut spv = sp0.clone();
                let vals: Vec<F> = lps.iter().map(|p| p.evaluate(&point)).collect();
                matches!(guarded(|| <$A as Adapter>::PC::check(&vk, comms.iter(), &point, vals, &proof, &mut spv, None)), Out::Ok(true))
            };
            // independent walk of the verifier's transcript to obtain the squeezed index bytes
            let mut tr = sp0.clone();
            let mut recs = vec![];
            for j in 0..sizes.len() {
                let (n_rows, n_cols, n_ext, root) = lc::commitment_parts::<MTConfig>(comms[j].commitment());
                let (paths, v, cols, wf) = lc::proof_parts(&proof[j]);
                let mut rb = Vec::new();
                root.serialize_compressed(&mut rb).unwrap();
                tr.absorb(&rb);
                if vk.check_well_formedness() {
                    let _r: Vec<F> = tr.squeeze_field_elements(n_rows);
                    if let Some(w) = &wf {
                        tr.absorb(w);
                    }
                }
                tr.absorb(&<$L>::point_to_vec(point.clone()));
                tr.absorb(&v);
                let nbytes = ((usize::BITS - n_ext.leading_zeros()) as usize + 7) / 8;
                let mut bytes = vec![];
                for _ in 0..paths.len() {
                    let b = tr.squeeze_bytes(nbytes);
                    tr.absorb(&b);
                    bytes.push(b.iter().map(|x| *x as u64).collect::<Vec<u64>>());
                }
                // (both fractions in lowest terms: TLC's integers are 32-bit)
                fn gcd(a: usize, b: usize) -> usize { if b == 0 { a.max(1) } else { gcd(b, a % b) } }
                let (d0, d1) = vk.distance();
                let (d0, d1) = (d0 / gcd(d0, d1), d1 / gcd(d0, d1));
                let (dd0, dd1) = (dd0 / gcd(dd0, dd1), dd1 / gcd(dd0, dd1));
                recs.push(json!({
                    "scheme": scheme, "size": format!("{}[{}]", tag, j), "n_rows": n_rows, "n_cols": n_cols, "n_ext": n_ext,
                    "lam": vk.sec_param(), "d0": d0, "d1": d1, "bits": F::MODULUS_BIT_SIZE,
                    "dlam": dlam, "dd0": dd0, "dd1": dd1,
                    "ncols": cols.len(), "npaths": paths.len(),
                    "leaf": paths.iter().map(|p| p.leaf_index).collect::<Vec<_>>(),
                    "colrows": cols.iter().map(|c| c.len()).collect::<Vec<_>>(),
                    "bytes": bytes, "vlen": v.len(), "wflen": wf.map(|w| w.len() as i64).unwrap_or(-1),
                    "accepted": accept,
                }));
            }
            // the prover's transcript must end where this walk ends
            let lock = tr.state_digest() == sp.state_digest();
            for mut r in recs {
                r["transcript_consistent"] = json!(lock);
                out.push(r);
            }
            out
        }
    };
}
// declared (lambda, distance): Reed-Solomon of rate 1/rho has relative distance (rho - 1)/rho; `setup` uses lambda = 128, rho = 4
fn ligero_decl(c: Option<(usize, usize)>) -> (usize, usize, usize) {
    match c {
        Some((l, r)) => (l, r - 1, r),
        None => (128, 3, 4),
    }
}
fn ligero_mk(l: usize, r: usize) -> Option<ark_poly_commit::linear_codes::LigeroPCParams<F, MTConfig, ColH<F>>> {
    Some(ark_poly_commit::linear_codes::LigeroPCParams::<F, MTConfig, ColH<F>>::new(l, r, true, (), (), ()))
}
// the multilinear `setup` uses rate 1/2 (as Sizes.tla's CodeLen has it)
fn ligero_ml_decl(c: Option<(usize, usize)>) -> (usize, usize, usize) {
    match c {
        Some((l, r)) => (l, r - 1, r),
        None => (128, 1, 2),
    }
}
// Brakedown's default parameter set (the paper's third row): beta = 0.061, r = 1.521, distance beta / r.
// Keys built with `BrakedownPCParams::new` (a 2 x 1024 matrix encoded by the Reed-Solomon base case): beta and r as
// fractions over DIFFERENT denominators, selected by an index into BD_CUSTOM.
const BD_CUSTOM: [((usize, usize), (usize, usize)); 3] = [((122, 2000), (1521, 1000)), ((61, 1000), (3042, 2000)), ((61, 1000), (3, 2))];
fn brakedown_decl(c: Option<(usize, usize)>) -> (usize, usize, usize) {
    match c {
        Some((l, i)) => {
            let (b, r) = BD_CUSTOM[i];
            (l, b.0 * r.1, b.1 * r.0)
        }
        None => (128, 61, 1521),
    }
}
fn brakedown_mk(l: usize, i: usize) -> Option<ark_poly_commit::linear_codes::BrakedownPCParams<F, MTConfig, ColH<F>>> {
    let (b, r) = BD_CUSTOM[i];
    Some(ark_poly_commit::linear_codes::BrakedownPCParams::<F, MTConfig, ColH<F>>::new(
        l, (178, 1000), b, r, 2048, 2, 1024, vec![], vec![], vec![], vec![], true, (), (), (),
    ))
}
record_fn!(record_uni, LigeroUni, ark_poly_commit::linear_codes::UnivariateLigero<F, MTConfig, UniPoly<F>, ColH<F>>, ligero_decl, ligero_mk);
record_fn!(record_ml, LigeroMl, ark_poly_commit::linear_codes::MultilinearLigero<F, MTConfig, MlPoly<F>, ColH<F>>, ligero_ml_decl, ligero_mk);
record_fn!(record_bd, Brakedown, ark_poly_commit::linear_codes::MultilinearBrakedown<F, MTConfig, MlPoly<F>, ColH<F>>, brakedown_decl, brakedown_mk);

pub fn columns(sizes_uni: &[usize], nvs: &[usize], batches: &[Vec<usize>]) -> Vec<Value> {
    use ark_poly_commit::linear_codes::{MultilinearBrakedown, MultilinearLigero, UnivariateLigero};
    let mut out = vec![];
    for s in sizes_uni {
        out.extend(record_uni("ligero_uni", &[*s], -1, None));
    }
    for b in batches {
        out.extend(record_uni("ligero_uni", b, -1, None));
    }
    for nv in nvs {
        out.extend(record_ml("ligero_ml", &[1], *nv as i64, None));
        out.extend(record_ml("ligero_ml", &[1, 1], *nv as i64, None));
        out.extend(record_bd("brakedown", &[1], *nv as i64, None));
    }
    // keys built through the public constructor: other security levels, rates that are not powers of two
    for (l, r) in [(128usize, 3usize), (128, 5), (128, 6), (100, 2), (80, 8), (60, 7)] {
        for s in [100usize, 170, 1023] {
            out.extend(record_uni("ligero_uni", &[s], -1, Some((l, r))));
        }
        for nv in [6i64, 9] {
            out.extend(record_ml("ligero_ml", &[1], nv, Some((l, r))));
        }
    }
    for i in 0..BD_CUSTOM.len() {
        out.extend(record_bd("brakedown", &[1], 11, Some((32, i))));
    }
    out
}

fn calct_for<G: PrimeField>(c: &Value) -> Value {
    let lam = c["lam"].as_u64().unwrap() as usize;
    let d = (c["d0"].as_u64().unwrap() as usize, c["d1"].as_u64().unwrap() as usize);
    let n = (c["nm"].as_u64().unwrap() as usize) << c["ne"].as_u64().unwrap();
    // the 19 leading bits of the modulus: |F| lies in [top, top+1) * 2^(bits-19)  (input of the TLA+ oracle)
    let bits_be = ark_ff::BigInteger::to_bits_be(&G::MODULUS);
    let first = bits_be.iter().position(|b| *b).unwrap_or(0);
    let top: u64 = bits_be[first..first + 19].iter().fold(0u64, |acc, b| acc * 2 + *b as u64);
    match guarded(|| lc::calculate_t::<G>(lam, d, n)) {
        Out::Ok(t) => json!({"class": "ok", "t": t, "n": n, "top": top, "modbits": bits_be.len() - first}),
        o => json!({"class": o.class(), "t": 0, "n": n, "top": top, "modbits": bits_be.len() - first}),
    }
}

/// `calculate_t` for every case; the field is selected by its bit size.
pub fn calct(cases: &[Value]) -> Vec<Value> {
    cases
        .iter()
        .map(|c| match c["bits"].as_u64().unwrap() {
            255 => calct_for::<ark_bls12_381::Fr>(c),
            253 => calct_for::<ark_bls12_377::Fr>(c),
            254 => calct_for::<ark_bn254::Fr>(c),
            377 => calct_for::<ark_bls12_377::Fq>(c),
            381 => calct_for::<ark_bls12_381::Fq>(c),
            b => json!({"class": "nofield", "t": 0, "bits": b}),
        })
        .collect()
}

fn lin_one<L, P>(name: &str, vk: &L::LinCodePCParams, msg_len: usize, declared: usize, n: usize) -> Value
where
    P: Polynomial<F>,
    L: LinearEncode<F, MTConfig, P, ColH<F>>,
{
    let mut rng = rng_for("encode", msg_len as u64);
    for case in 0..n {
        let x: Vec<F> = (0..msg_len).map(|_| F::rand(&mut rng)).collect();
        let y: Vec<F> = (0..msg_len).map(|_| if case % 3 == 0 { F::zero() } else { F::rand(&mut rng) }).collect();
        let (a, b) = (F::rand(&mut rng), F::rand(&mut rng));
        let z: Vec<F> = x.iter().zip(&y).map(|(p, q)| a * p + b * q).collect();
        let (ex, ey, ez) = match (L::encode(&x, vk), L::encode(&y, vk), L::encode(&z, vk)) {
            (Ok(p), Ok(q), Ok(r)) => (p, q, r),
            _ => return json!({"what": name, "cases": n, "ok": false, "why": "encode returned an error on a message of the declared length"}),
        };
        if ex.len() != declared || ez.len() != declared {
            return json!({"what": name, "cases": n, "ok": false, "why": format!("encoding has length {} but the declared codeword length is {}", ex.len(), declared)});
        }
        if ez.iter().zip(ex.iter().zip(&ey)).any(|(r, (p, q))| *r != a * p + b * q) {
            return json!({"what": name, "cases": n, "ok": false, "why": "E(a x + b y) != a E(x) + b E(y)"});
        }
    }
    json!({"what": name, "cases": n, "ok": true, "why": ""})
}

/// Encoding is linear and has the declared length (the n_ext_cols of an honest commitment).
pub fn encoding(n: usize) -> Vec<Value> {
    use ark_poly_commit::linear_codes::{MultilinearBrakedown, MultilinearLigero, UnivariateLigero};
    let mut out = vec![];
    for size in [3usize, 16, 100] {
        let recs = record_uni("ligero_uni", &[size], -1, None);
        let r = &recs[0];
        if r.get("error").is_some() {
            out.push(json!({"what": "encode_ligero_uni", "cases": 1, "ok": false, "why": r["error"]}));
            continue;
        }
        let pp = crate::session::cached_setup::<LigeroUni>(size as i64, -1).ok().unwrap();
        out.push(lin_one::<UnivariateLigero<F, MTConfig, UniPoly<F>, ColH<F>>, UniPoly<F>>(
            "encode_ligero_uni", &pp, r["n_cols"].as_u64().unwrap() as usize, r["n_ext"].as_u64().unwrap() as usize, n));
    }
    for nv in [3usize, 6] {
        let recs = record_ml("ligero_ml", &[1], nv as i64, None);
        let r = &recs[0];
        if r.get("error").is_none() {
            let pp = crate::session::cached_setup::<LigeroMl>(1, nv as i64).ok().unwrap();
            out.push(lin_one::<MultilinearLigero<F, MTConfig, MlPoly<F>, ColH<F>>, MlPoly<F>>(
                "encode_ligero_ml", &pp, r["n_cols"].as_u64().unwrap() as usize, r["n_ext"].as_u64().unwrap() as usize, n));
        }
        let recs = record_bd("brakedown", &[1], nv as i64, None);
        let r = &recs[0];
        if r.get("error").is_none() {
            let pp = crate::session::cached_setup::<Brakedown>(1, nv as i64).ok().unwrap();
            out.push(lin_one::<MultilinearBrakedown<F, MTConfig, MlPoly<F>, ColH<F>>, MlPoly<F>>(
                "encode_brakedown", &pp, r["n_cols"].as_u64().unwrap() as usize, r["n_ext"].as_u64().unwrap() as usize, n));
        } else {
            out.push(json!({"what": "encode_brakedown", "cases": 1, "ok": false, "why": r["error"]}));
        }
    }
    out
}
