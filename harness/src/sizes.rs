//! C19: measured serialized sizes of commitments and proofs against the laws of spec/Sizes.tla.
use crate::adapter::*;
use crate::beh::{Beh, PolySpec};
use crate::common::*;
use ark_ec::pairing::Pairing;
use ark_ff::UniformRand;
use ark_poly::Polynomial;
use ark_poly_commit::multilinear_pc::MultilinearPC;
use ark_poly_commit::{Evaluations, LabeledPolynomial, PolynomialCommitment, QuerySet};
use ark_serialize::{CanonicalSerialize, Compress};
use ark_std::rand::RngCore;
use serde_json::{json, Value};

fn units(u: &Value, g: usize, g2: usize, fr: usize) -> usize {
    let f = |k: &str| u[k].as_u64().unwrap() as usize;
    f("g") * g + f("g2") * g2 + f("fr") * fr + f("u64") * 8 + f("opt") + f("raw")
}

fn trait_case<A: Adapter>(v: &Value, g: usize, g2: usize, fr: usize) -> Value
where
    Comm<A>: CanonicalSerialize,
    Proof<A>: CanonicalSerialize,
{
    let c = &v["cfg"];
    let deg = c["deg"].as_i64().unwrap();
    let nv = c["nv"].as_i64().unwrap();
    let k = c["k"].as_u64().unwrap() as usize;
    let bound = c["bound"].as_bool().unwrap();
    let hid = c["hid"].as_bool().unwrap();
    let fam = A::FAMILY;
    let beh = Beh {
        id: format!("sz-{}-{}-{}-{}-{}-{}", A::NAME, deg, nv, k, bound, hid), prop: "C19".into(), scheme: A::NAME.into(),
        max_degree: if fam == "ml" { 1 } else { deg }, num_vars: if fam == "uni" { -1 } else { nv },
        supported: if fam == "ml" { 1 } else { deg }, hiding: 1, bounds: vec![deg], nobounds: !bound, polys: vec![], rng: true, wf: true, note: String::new(), vsupported: -1,
        ops: vec![], adv: vec![], expect: Default::default(), ser: vec![], tag: String::new(),
    };
    let fail = |w: String| json!({"ok": false, "why": w});
    let pp = match crate::session::cached_setup::<A>(beh.max_degree, beh.num_vars) {
        Out::Ok(p) => p,
        o => return fail(format!("setup: {}", o.detail())),
    };
    let bl = [deg as usize];
    let (ck, vk) = match guarded(|| A::PC::trim(&pp, beh.supported as usize, 1, if bound { Some(&bl[..]) } else { None })) {
        Out::Ok(x) => x,
        o => return fail(format!("trim: {}", o.detail())),
    };
    let mut rng = rng_for("sizes", deg as u64 * 131 + nv as u64);
    let lps: Vec<_> = (1..=k as i64)
        .map(|l| {
            let spec = PolySpec { l, cls: "full".into(), deg, lz: 0, bound: if bound { deg } else { -1 }, hid: if hid { 1 } else { -1 } };
            crate::session::labeled_poly::<A>(&spec, &beh, 0)
        })
        .collect();
    let mut cr = LogRng::new(3);
    let (comms, states) = match guarded(|| A::PC::commit(&ck, lps.iter(), Some(&mut cr as &mut dyn RngCore))) {
        Out::Ok(x) => x,
        o => return fail(format!("commit: {}", o.detail())),
    };
    let want_c = units(&v["comm"], g, g2, fr);
    for cm in &comms {
        let sz = cm.commitment().serialized_size(Compress::Yes);
        let mut buf = vec![];
        cm.commitment().serialize_compressed(&mut buf).unwrap();
        if sz != buf.len() {
            return fail(format!("commitment: serialized_size {} but {} bytes written", sz, buf.len()));
        }
        if sz != want_c {
            return fail(format!("commitment has {} bytes, the law gives {}", sz, want_c));
        }
    }
    let point = A::make_point(1, &beh);
    let mut sp = LogSponge::<A::F>::fresh();
    let mut pr = LogRng::new(4);
    let proof = match guarded(|| A::PC::open(&ck, lps.iter(), comms.iter(), &point, &mut sp, states.iter(), Some(&mut pr as &mut dyn RngCore))) {
        Out::Ok(x) => x,
        o => return fail(format!("open: {}", o.detail())),
    };
    let psz = proof.serialized_size(Compress::Yes);
    let mut buf = vec![];
    proof.serialize_compressed(&mut buf).unwrap();
    if psz != buf.len() {
        return fail(format!("proof: serialized_size {} but {} bytes written", psz, buf.len()));
    }
    let lin = v["lin"].as_bool().unwrap_or(false) as usize;
    if lin > 0 {
        // linear codes: k proofs of one polynomial each.  Own shape from the serialized commitment
        // (n_rows, n_cols, n_ext are its first three u64).
        let per = (psz - 8) / k;
        let mut cb = vec![];
        comms[0].commitment().serialize_compressed(&mut cb).unwrap();
        let rd = |i: usize| u64::from_le_bytes(cb[8 * i..8 * i + 8].try_into().unwrap()) as usize;
        let (n_rows, n_ext) = (rd(0), rd(2));
        let shapes = v["lin_shapes"].as_array().unwrap();
        let own = shapes.iter().find(|s| s["rows"].as_u64().unwrap() as usize == n_rows);
        let own = match own {
            Some(o) => o,
            None => return fail(format!("the matrix has {} rows, which is not a power of two <= the polynomial size", n_rows)),
        };
        let t_own = own["t"].as_u64().unwrap() as usize;
        let all_opened = t_own >= n_ext;
        let best = v["lin_best"].as_u64().unwrap() as usize;
        if !all_opened && best > 0 {
            if per > 4 * best {
                return fail(format!("proof has {} bytes per polynomial for {} coefficients ({} rows); 4 x best modelled shape = {}", per, v["ncoeffs"], n_rows, 4 * best));
            }
        } else {
            // every column of the (tiny) codeword is opened: the proof is the encoded matrix plus paths;
            // it must not carry more than the model of its own shape accounts for
            let own_bytes = own["bytes"].as_u64().unwrap() as usize;
            if per > 4 * own_bytes {
                return fail(format!("proof has {} bytes per polynomial, 4 x the model of its own {}-row shape = {}", per, n_rows, 4 * own_bytes));
            }
        }
    } else {
        let want_p = units(&v["proof"], g, g2, fr);
        if psz != want_p {
            return fail(format!("proof has {} bytes, the law gives {}", psz, want_p));
        }
    }
    // a proof for several polynomials is the list of their individual proofs: each part depends on its OWN
    // polynomial's size only (univariate Ligero accepts polynomials of different sizes in one call)
    if lin > 0 && A::NAME == "ligero_uni" && deg > 4 {
        let small = PolySpec { l: 9, cls: "full".into(), deg: 2, lz: 0, bound: -1, hid: -1 };
        let sp_l = crate::session::labeled_poly::<A>(&small, &beh, 0);
        let mut cr2 = LogRng::new(7);
        if let Out::Ok((c2, s2)) = guarded(|| A::PC::commit(&ck, std::iter::once(&sp_l), Some(&mut cr2 as &mut dyn RngCore))) {
            let size_of = |ps: Vec<&LabeledPolynomial<A::F, A::P>>, cs: Vec<&ark_poly_commit::LabeledCommitment<Comm<A>>>, ss: Vec<&CState<A>>| -> Option<usize> {
                let mut spx = LogSponge::<A::F>::fresh();
                let mut rx = LogRng::new(8);
                guarded(|| A::PC::open(&ck, ps, cs, &point, &mut spx, ss, Some(&mut rx as &mut dyn RngCore))).ok().map(|p| p.serialized_size(Compress::Yes))
            };
            let big = size_of(vec![&lps[0]], vec![&comms[0]], vec![&states[0]]);
            let sml = size_of(vec![&sp_l], vec![&c2[0]], vec![&s2[0]]);
            let both = size_of(vec![&lps[0], &sp_l], vec![&comms[0], &c2[0]], vec![&states[0], &s2[0]]);
            let rev = size_of(vec![&sp_l, &lps[0]], vec![&c2[0], &comms[0]], vec![&s2[0], &states[0]]);
            if let (Some(b), Some(s_), Some(j), Some(r)) = (big, sml, both, rev) {
                if j != b + s_ - 8 || r != j {
                    return fail(format!("joint opening of a degree-{} and a degree-2 polynomial has {} / {} bytes, the separate proofs {} + {} - 8", deg, j, r, b, s_));
                }
            } else {
                return fail("opening polynomials of two sizes in one call failed".into());
            }
        }
    }
    // verifies, and a batch over two point labels is two such proofs behind one length prefix
    let mut spv = LogSponge::<A::F>::fresh();
    let vals: Vec<A::F> = lps.iter().map(|p| p.evaluate(&point)).collect();
    let mut vr = LogRng::new(5);
    match guarded(|| A::PC::check(&vk, comms.iter(), &point, vals, &proof, &mut spv, Some(&mut vr as &mut dyn RngCore))) {
        Out::Ok(true) => {}
        o => return fail(format!("the measured proof does not verify: {:?}", o.class())),
    }
    let mut qs = QuerySet::new();
    let p2 = A::make_point(2, &beh);
    for lp in &lps {
        qs.insert((lp.label().clone(), (qlabel(1), point.clone())));
        qs.insert((lp.label().clone(), (qlabel(2), p2.clone())));
    }
    let mut spb = LogSponge::<A::F>::fresh();
    let mut br = LogRng::new(6);
    if let Out::Ok(bp) = guarded(|| A::PC::batch_open(&ck, lps.iter(), comms.iter(), &qs, &mut spb, states.iter(), Some(&mut br as &mut dyn RngCore))) {
        let bsz = bp.serialized_size(Compress::Yes);
        let want_b = if v["batch2"].is_object() { units(&v["batch2"], g, g2, fr) } else { 8 + 2 * psz };
        if lin == 0 && (bsz != 8 + 2 * psz || bsz != want_b) {
            return fail(format!("batch proof over 2 points has {} bytes, the law gives {} (= 8 + 2 x {})", bsz, want_b, psz));
        }
        let _: Option<Evaluations<A::Pt, A::F>> = None;
    } else {
        return fail("batch_open failed".into());
    }
    // the same law for a MIXED batch: polynomials without a bound, with the largest and with a smaller enforced
    // bound, all queried at the same two points (schemes with degree bounds)
    if lin == 0 && bound && deg >= 2 && matches!(A::NAME, "marlin" | "sonic" | "ipa") {
        let b2 = (deg / 2).max(1);
        let bl2 = [deg as usize, b2 as usize];
        let mut beh2 = beh.clone();
        beh2.bounds = vec![deg, b2];
        let (ck2, _vk2) = match guarded(|| A::PC::trim(&pp, beh.supported as usize, 1, Some(&bl2[..]))) {
            Out::Ok(x) => x,
            o => return fail(format!("trim with two bounds: {}", o.detail())),
        };
        let h = if hid { 1 } else { -1 };
        let specs = [
            PolySpec { l: 21, cls: "full".into(), deg, lz: 0, bound: -1, hid: h },
            PolySpec { l: 22, cls: "full".into(), deg, lz: 0, bound: deg, hid: h },
            PolySpec { l: 23, cls: "full".into(), deg: b2, lz: 0, bound: b2, hid: h },
        ];
        let mps: Vec<_> = specs.iter().map(|sp_| crate::session::labeled_poly::<A>(sp_, &beh2, 0)).collect();
        let mut cr3 = LogRng::new(13);
        let (mc, ms) = match guarded(|| A::PC::commit(&ck2, mps.iter(), Some(&mut cr3 as &mut dyn RngCore))) {
            Out::Ok(x) => x,
            o => return fail(format!("commit (mixed bounds): {}", o.detail())),
        };
        let mut qs = QuerySet::new();
        for lp in &mps {
            qs.insert((lp.label().clone(), (qlabel(1), point.clone())));
            qs.insert((lp.label().clone(), (qlabel(2), p2.clone())));
        }
        let mut spm = LogSponge::<A::F>::fresh();
        let mut mr = LogRng::new(14);
        match guarded(|| A::PC::batch_open(&ck2, mps.iter(), mc.iter(), &qs, &mut spm, ms.iter(), Some(&mut mr as &mut dyn RngCore))) {
            Out::Ok(bp) => {
                let bsz = bp.serialized_size(Compress::Yes);
                let want_b = if v["batch2"].is_object() { units(&v["batch2"], g, g2, fr) } else { 8 + 2 * psz };
                if bsz != want_b {
                    return fail(format!("batch proof over 2 points for polynomials with bounds none / {} / {} has {} bytes, the law gives {}", deg, b2, bsz, want_b));
                }
            }
            o => return fail(format!("batch_open (mixed bounds): {}", o.detail())),
        }
    }
    // linear-combination proofs of the trait-default path (Hyrax, linear codes): the batch proof over exactly the
    // (polynomial, point) pairs the combinations need, plus one transmitted evaluation per pair.  Two combinations
    // over disjoint halves of the polynomials, queried at two different points: k pairs (Sizes.tla: lc_evals).
    if k >= 2 && matches!(A::NAME, "hyrax" | "ligero_uni" | "ligero_ml" | "brakedown") {
        use ark_poly_commit::{LCTerm, LinearCombination};
        let h = (k + 1) / 2;
        let mut la = LinearCombination::<A::F>::empty(elabel(1));
        for (i, lp) in lps.iter().enumerate().take(h) {
            la.push((A::F::from(i as u64 + 1), LCTerm::PolyLabel(lp.label().clone())));
        }
        la.push((A::F::from(3u64), LCTerm::One));
        let mut lb = LinearCombination::<A::F>::empty(elabel(2));
        for lp in lps.iter().skip(h) {
            lb.push((A::F::from(1u64), LCTerm::PolyLabel(lp.label().clone())));
        }
        let lcs = vec![la, lb];
        let mut lqs = QuerySet::new();
        lqs.insert((elabel(1), (qlabel(1), point.clone())));
        lqs.insert((elabel(2), (qlabel(2), p2.clone())));
        let mut needed = QuerySet::new();
        for (i, lp) in lps.iter().enumerate() {
            if i < h {
                needed.insert((lp.label().clone(), (qlabel(1), point.clone())));
            } else {
                needed.insert((lp.label().clone(), (qlabel(2), p2.clone())));
            }
        }
        let mut spl = LogSponge::<A::F>::fresh();
        let mut lr = LogRng::new(15);
        let lcp = match guarded(|| A::PC::open_combinations(&ck, lcs.iter(), lps.iter(), comms.iter(), &lqs, &mut spl, states.iter(), Some(&mut lr as &mut dyn RngCore))) {
            Out::Ok(x) => x,
            o => return fail(format!("open_combinations: {}", o.detail())),
        };
        let want_evals = v["lc_evals"].as_u64().unwrap_or(k as u64) as usize;
        let got_evals = lcp.evals.as_ref().map(|e| e.len());
        if got_evals != Some(want_evals) {
            return fail(format!("LC proof of two combinations over disjoint halves of {} polynomials at two points transmits {:?} evaluations, the law gives {}", k, got_evals, want_evals));
        }
        let lproofs: Vec<Proof<A>> = lcp.proof.into();
        let lsz = lproofs.serialized_size(Compress::Yes);
        let mut spn = LogSponge::<A::F>::fresh();
        let mut nr = LogRng::new(16);
        match guarded(|| A::PC::batch_open(&ck, lps.iter(), comms.iter(), &needed, &mut spn, states.iter(), Some(&mut nr as &mut dyn RngCore))) {
            Out::Ok(bp) => {
                let np: Vec<Proof<A>> = bp.into();
                let nsz = np.serialized_size(Compress::Yes);
                if lsz != nsz {
                    return fail(format!("LC proof carries {} bytes of openings, a batch proof over the {} needed (polynomial, point) pairs has {}", lsz, k, nsz));
                }
            }
            o => return fail(format!("batch_open over the needed pairs: {}", o.detail())),
        }
    }
    let _ = &mut rng;
    json!({"ok": true, "why": "", "comm": want_c, "proof": psz})
}

fn mlpst(v: &Value) -> Value {
    let nv = v["cfg"]["nv"].as_u64().unwrap() as usize;
    let mut rng = rng_for("sizes-mlpst", nv as u64);
    let pp = MultilinearPC::<E381>::setup(nv, &mut rng);
    let (ck, vk) = MultilinearPC::<E381>::trim(&pp, nv);
    let p = MlPoly::<Fr381>::from_evaluations_vec(nv, (0..1 << nv).map(|_| Fr381::rand(&mut rng)).collect());
    let c = MultilinearPC::<E381>::commit(&ck, &p);
    let pt: Vec<Fr381> = (0..nv).map(|_| Fr381::rand(&mut rng)).collect();
    let pr = MultilinearPC::<E381>::open(&ck, &p, &pt);
    let (wc, wp) = (units(&v["comm"], 48, 96, 32), units(&v["proof"], 48, 96, 32));
    if c.serialized_size(Compress::Yes) != wc || pr.serialized_size(Compress::Yes) != wp {
        return json!({"ok": false, "why": format!("multilinear PST sizes {} / {}, laws {} / {}", c.serialized_size(Compress::Yes), pr.serialized_size(Compress::Yes), wc, wp)});
    }
    if !MultilinearPC::<E381>::check(&vk, &c, &pt, p.evaluate(&pt), &pr) {
        return json!({"ok": false, "why": "measured proof does not verify"});
    }
    json!({"ok": true, "why": ""})
}

/// KZG10 used directly: commitment = one G1 element, proof = G1 element + option (+ one scalar when hiding).
fn kzg10_direct(v: &Value) -> Value {
    use ark_poly_commit::kzg10::{Powers, KZG10};
    use ark_poly::DenseUVPolynomial;
    type K = KZG10<E381, UniPoly<Fr381>>;
    let deg = v["cfg"]["deg"].as_u64().unwrap() as usize;
    let hid = v["cfg"]["hid"].as_bool().unwrap();
    let mut rng = rng_for("sizes-kzg10", deg as u64);
    let pp = match guarded(|| K::setup(deg.max(2), false, &mut rng)) { Out::Ok(p) => p, o => return json!({"ok": false, "why": format!("setup: {}", o.detail())}) };
    let sup = deg.max(2);
    let powers = Powers::<E381> {
        powers_of_g: std::borrow::Cow::Owned(pp.powers_of_g[..=sup].to_vec()),
        powers_of_gamma_g: std::borrow::Cow::Owned((0..=sup).map(|i| pp.powers_of_gamma_g[&i]).collect()),
    };
    let p = UniPoly::<Fr381>::rand(deg, &mut rng);
    let (c, r) = match guarded(|| K::commit(&powers, &p, if hid { Some(1) } else { None }, Some(&mut rng as &mut dyn RngCore))) {
        Out::Ok(x) => x, o => return json!({"ok": false, "why": format!("commit: {}", o.detail())}) };
    let z = Fr381::rand(&mut rng);
    let pr = match guarded(|| K::open(&powers, &p, z, &r)) { Out::Ok(x) => x, o => return json!({"ok": false, "why": format!("open: {}", o.detail())}) };
    let (wc, wp) = (units(&v["comm"], 48, 96, 32), units(&v["proof"], 48, 96, 32));
    let (sc, sp) = (c.serialized_size(Compress::Yes), pr.serialized_size(Compress::Yes));
    let mut bytes = vec![];
    pr.serialize_compressed(&mut bytes).unwrap();
    if sc != wc || sp != wp || bytes.len() != sp {
        return json!({"ok": false, "why": format!("KZG10 sizes {} / {} ({} bytes written), laws {} / {}", sc, sp, bytes.len(), wc, wp)});
    }
    json!({"ok": true, "why": ""})
}

/// Streaming KZG: commitment and evaluation proof are one G1 element each, for any number of polynomials and points.
fn stream(v: &Value) -> Value {
    use ark_poly_commit::streaming_kzg::{CommitterKey, VerifierKey};
    let deg = v["cfg"]["deg"].as_u64().unwrap() as usize;
    let k = v["cfg"]["k"].as_u64().unwrap() as usize;
    let mut rng = rng_for("sizes-stream", (deg * 8 + k) as u64);
    let ck = CommitterKey::<E381>::new(deg, 3, &mut rng);
    let vk = VerifierKey::from(&ck);
    let polys: Vec<Vec<Fr381>> = (0..k).map(|_| (0..=deg).map(|_| Fr381::rand(&mut rng)).collect()).collect();
    let comms: Vec<_> = polys.iter().map(|p| ck.commit(p)).collect();
    let pts: Vec<Fr381> = (0..2).map(|_| Fr381::rand(&mut rng)).collect();
    let eta = Fr381::rand(&mut rng);
    let refs: Vec<&Vec<Fr381>> = polys.iter().collect();
    let proof = ck.batch_open_multi_points(&refs, &pts, &eta);
    let evals: Vec<Vec<Fr381>> = polys.iter().map(|p| {
        let q = UniPoly::<Fr381> { coeffs: p.clone() };
        pts.iter().map(|z| q.evaluate(z)).collect()
    }).collect();
    if vk.verify_multi_points(&comms, &pts, &evals, &proof, &eta).is_err() {
        return json!({"ok": false, "why": "measured streaming proof does not verify"});
    }
    let (wc, wp) = (units(&v["comm"], 48, 96, 32), units(&v["proof"], 48, 96, 32));
    let sc = comms[0].size_in_bytes();
    let sp = proof.0.serialized_size(Compress::Yes);
    if sc != wc || sp != wp {
        return json!({"ok": false, "why": format!("streaming sizes {} / {}, laws {} / {}", sc, sp, wc, wp)});
    }
    json!({"ok": true, "why": ""})
}

pub fn check_size(v: &Value) -> Value {
    let g1 = <E381 as Pairing>::G1Affine::default().serialized_size(Compress::Yes);
    let g2 = <E381 as Pairing>::G2Affine::default().serialized_size(Compress::Yes);
    let ge = GEd::default().serialized_size(Compress::Yes);
    match v["cfg"]["s"].as_str().unwrap() {
        "marlin" => trait_case::<Marlin>(v, g1, g2, 32),
        "sonic" => trait_case::<Sonic>(v, g1, g2, 32),
        "pst13" => trait_case::<Pst13>(v, g1, g2, 32),
        "ipa" => trait_case::<Ipa>(v, ge, 0, 32),
        "hyrax" => trait_case::<Hyrax>(v, ge, 0, 32),
        "ligero_uni" => trait_case::<LigeroUni>(v, 0, 0, 32),
        "ligero_ml" => trait_case::<LigeroMl>(v, 0, 0, 32),
        "brakedown" => trait_case::<Brakedown>(v, 0, 0, 32),
        "mlpst" => mlpst(v),
        "kzg10" => kzg10_direct(v),
        "stream" => stream(v),
        s => json!({"ok": false, "why": format!("unknown scheme {}", s)}),
    }
}
