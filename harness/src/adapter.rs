//! Scheme adapters: concrete instantiations of every trait scheme plus the scheme-specific
//! constructors (polynomials by class, points, commitment variants, proof mutations).
use crate::beh::{Beh, PolySpec};
use crate::common::*;
use ark_crypto_primitives::{
    crh::{sha256::Sha256, CRHScheme, TwoToOneCRHScheme},
    merkle_tree::{ByteDigestConverter, Config},
    sponge::Absorb,
};
use ark_ec::{pairing::Pairing, AffineRepr, CurveGroup};
use ark_ff::{Field, One, PrimeField, UniformRand, Zero};
use ark_poly::{
    multivariate::{SparsePolynomial, SparseTerm, Term},
    univariate::DensePolynomial,
    DenseMVPolynomial, DenseMultilinearExtension, DenseUVPolynomial, Polynomial,
};
use ark_poly_commit::{
    LabeledCommitment,
    hyrax::HyraxPC,
    ipa_pc::InnerProductArgPC,
    linear_codes::{LinearCodePCS, MultilinearBrakedown, MultilinearLigero, UnivariateLigero},
    marlin_pc::MarlinKZG10,
    marlin_pst13_pc::MarlinPST13,
    sonic_pc::SonicKZG10,
    PolynomialCommitment,
};
use ark_serialize::CanonicalSerialize;
use ark_std::borrow::Borrow;
use ark_std::marker::PhantomData;
use ark_std::rand::RngCore;
use blake2::Blake2s256;
use digest::Digest;
use rand_chacha::ChaCha20Rng;
use std::fmt::Debug;
use std::hash::Hash;

pub type Comm<A> = <<A as Adapter>::PC as PolynomialCommitment<
    <A as Adapter>::F,
    <A as Adapter>::P,
>>::Commitment;
pub type CState<A> = <<A as Adapter>::PC as PolynomialCommitment<
    <A as Adapter>::F,
    <A as Adapter>::P,
>>::CommitmentState;
pub type Proof<A> =
    <<A as Adapter>::PC as PolynomialCommitment<<A as Adapter>::F, <A as Adapter>::P>>::Proof;
pub type BProof<A> = <<A as Adapter>::PC as PolynomialCommitment<
    <A as Adapter>::F,
    <A as Adapter>::P,
>>::BatchProof;
pub type CK<A> = <<A as Adapter>::PC as PolynomialCommitment<
    <A as Adapter>::F,
    <A as Adapter>::P,
>>::CommitterKey;
pub type VK<A> = <<A as Adapter>::PC as PolynomialCommitment<
    <A as Adapter>::F,
    <A as Adapter>::P,
>>::VerifierKey;

pub trait Adapter: 'static + Sized {
    type F: PrimeField + Absorb;
    type Pt: Clone + Ord + Debug + Hash + Sync + Send;
    type P: Polynomial<Self::F, Point = Self::Pt> + Clone + Send + Sync + 'static;
    type UP: Clone + Send + Sync + 'static + CanonicalSerialize + ark_serialize::CanonicalDeserialize;
    type Pr: Clone + CanonicalSerialize + ark_serialize::CanonicalDeserialize;
    type PC: PolynomialCommitment<Self::F, Self::P, UniversalParams = Self::UP, Proof = Self::Pr>;
    const NAME: &'static str;
    /// "uni" | "mv" | "ml"
    const FAMILY: &'static str;

    fn make_poly(spec: &PolySpec, beh: &Beh, rng: &mut ChaCha20Rng) -> Self::P;
    fn make_point(id: i64, beh: &Beh) -> Self::Pt;

    /// Crafted proofs for one group of a statement as shown to the verifier (`sp` = the verifier's sponge at
    /// the start of that group); returns the proof to substitute.
    fn forge_group(
        _kind: &str,
        _vk: &VK<Self>,
        _comms: &[&LabeledCommitment<Comm<Self>>],
        _point: &Self::Pt,
        _values: &[Self::F],
        _proof: &Proof<Self>,
        _sp: &mut LogSponge<Self::F>,
    ) -> Option<Proof<Self>> {
        None
    }

    /// KZG-type proofs: add e * g (g = the verifier key's G1 generator) to the (first) witness element.
    fn shift_witness(_vk: &VK<Self>, _proof: &mut Proof<Self>, _e: Self::F) -> bool {
        false
    }
    /// IPA: the library's own prover run over the committer key padded with identity elements to twice its length,
    /// on the polynomials with the first one extended by X^(d+1) b(X): a proof with one round more for the false
    /// value (p + X^(d+1) b)(z) of the first polynomial.  `sp` = the verifier's sponge at the start of the group.
    fn forge_extra_round(
        _ck: &CK<Self>,
        _polys: &[&ark_poly_commit::LabeledPolynomial<Self::F, Self::P>],
        _comms: &[&LabeledCommitment<Comm<Self>>],
        _point: &Self::Pt,
        _sp: &mut LogSponge<Self::F>,
        _states: &[&CState<Self>],
        _rng: &mut ChaCha20Rng,
    ) -> Option<(Proof<Self>, Self::F)> {
        None
    }
    /// First coordinate of an evaluation point as a field element.
    fn point_coord0(_pt: &Self::Pt) -> Option<Self::F> {
        None
    }
    /// Multivariate KZG: append a coordinate e != 0 to the point and the witness (t / e) * g to the proof.
    fn extra_witness(_vk: &VK<Self>, _pt: &mut Self::Pt, _proof: &mut Proof<Self>, _t: Self::F) -> bool {
        false
    }

    /// Linear codes: universal parameters built through the public constructors with the option
    /// `check_well_formedness = false` (the default `setup` always switches it on).
    fn setup_without_wf(_max_degree: usize, _num_vars: Option<usize>, _rng: &mut ChaCha20Rng) -> Option<Self::UP> {
        None
    }

    /// Variants of a commitment used by the adversary: "drop_shifted", "foreign_shifted"
    /// (shifted part of `other`), "random_comm" (replace the plain part by a random element).
    fn comm_variant(
        _kind: &str,
        _c: &Comm<Self>,
        _other: Option<&Comm<Self>>,
        _rng: &mut ChaCha20Rng,
    ) -> Option<Comm<Self>> {
        None
    }

    /// Scheme-specific single-proof mutations; returns false when not applicable.
    fn proof_mutation(
        _kind: &str,
        _k: i64,
        _p: &mut Proof<Self>,
        _other: Option<&Proof<Self>>,
        _rng: &mut ChaCha20Rng,
    ) -> bool {
        false
    }

    /// Crafted proofs that need the session's context (linear codes): returns the forged proof for
    /// a single polynomial and the value it is meant to prove.
    fn forge(
        _kind: &str,
        _vk: &VK<Self>,
        _comm: &Comm<Self>,
        _state: &CState<Self>,
        _point: &Self::Pt,
        _sp: &LogSponge<Self::F>,
        _rng: &mut ChaCha20Rng,
    ) -> Option<(Proof<Self>, Self::F)> {
        None
    }

    /// Independent evaluation of the scheme's single-point verification relation (C10).
    fn reference_check(
        _vk: &VK<Self>,
        _comms: &[&LabeledCommitment<Comm<Self>>],
        _point: &Self::Pt,
        _values: &[Self::F],
        _proof: &Proof<Self>,
        _sp: &mut LogSponge<Self::F>,
    ) -> Option<bool> {
        None
    }

    /// Variants of the verifier key with one element replaced (C10): returns None when not applicable.
    fn vk_variant(_kind: &str, _vk: &VK<Self>, _rng: &mut ChaCha20Rng) -> Option<VK<Self>> {
        None
    }

    /// Names of the verifier-visible proof components `proof_mutation("replace:<name>")` understands.
    fn proof_components(_p: &Proof<Self>) -> Vec<String> {
        vec![]
    }
}

// ---------------------------------------------------------------------------------------------
// concrete types

pub type E381 = ark_bls12_381::Bls12_381;
pub type Fr381 = ark_bls12_381::Fr;
pub type E377 = ark_bls12_377::Bls12_377;
pub type Fr377 = ark_bls12_377::Fr;
pub type GEd = ark_ed_on_bls12_381::EdwardsAffine;
pub type FrEd = ark_ed_on_bls12_381::Fr;

pub type UniPoly<F> = DensePolynomial<F>;
pub type MvPoly<F> = SparsePolynomial<F, SparseTerm>;
pub type MlPoly<F> = DenseMultilinearExtension<F>;

/// Identity leaf hash (as in the repository's tests and benches).
pub struct LeafIdentityHasher;
impl CRHScheme for LeafIdentityHasher {
    type Input = Vec<u8>;
    type Output = Vec<u8>;
    type Parameters = ();
    fn setup<R: RngCore>(_: &mut R) -> Result<Self::Parameters, ark_crypto_primitives::Error> {
        Ok(())
    }
    fn evaluate<T: Borrow<Self::Input>>(
        _: &Self::Parameters,
        input: T,
    ) -> Result<Self::Output, ark_crypto_primitives::Error> {
        Ok(input.borrow().to_vec())
    }
}

/// Column hasher: digest of the compressed serialization of the column.
pub struct FieldToBytesColHasher<F, D>
where
    F: PrimeField + CanonicalSerialize,
    D: Digest,
{
    _phantom: PhantomData<(F, D)>,
}
impl<F, D> CRHScheme for FieldToBytesColHasher<F, D>
where
    F: PrimeField + CanonicalSerialize,
    D: Digest,
{
    type Input = Vec<F>;
    type Output = Vec<u8>;
    type Parameters = ();
    fn setup<R: RngCore>(_rng: &mut R) -> Result<Self::Parameters, ark_crypto_primitives::Error> {
        Ok(())
    }
    fn evaluate<T: Borrow<Self::Input>>(
        _parameters: &Self::Parameters,
        input: T,
    ) -> Result<Self::Output, ark_crypto_primitives::Error> {
        let mut dig = D::new();
        let mut buf = Vec::new();
        input.borrow().serialize_compressed(&mut buf).unwrap();
        dig.update(buf);
        Ok(dig.finalize().to_vec())
    }
}

pub struct MerkleTreeParams;
impl Config for MerkleTreeParams {
    type Leaf = Vec<u8>;
    type LeafDigest = <LeafIdentityHasher as CRHScheme>::Output;
    type LeafInnerDigestConverter = ByteDigestConverter<Self::LeafDigest>;
    type InnerDigest = <Sha256 as TwoToOneCRHScheme>::Output;
    type LeafHash = LeafIdentityHasher;
    type TwoToOneHash = Sha256;
}
pub type MTConfig = MerkleTreeParams;
pub type ColH<F> = FieldToBytesColHasher<F, Blake2s256>;

pub type MarlinPC = MarlinKZG10<E381, UniPoly<Fr381>>;
pub type SonicPC = SonicKZG10<E381, UniPoly<Fr381>>;
pub type IpaPC = InnerProductArgPC<GEd, Blake2s256, UniPoly<FrEd>>;
pub type Pst13PC = MarlinPST13<E381, MvPoly<Fr381>>;
pub type HyraxPCT = HyraxPC<GEd, MlPoly<FrEd>>;
pub type LigeroUniPC = LinearCodePCS<
    UnivariateLigero<Fr381, MTConfig, UniPoly<Fr381>, ColH<Fr381>>,
    Fr381,
    UniPoly<Fr381>,
    MTConfig,
    ColH<Fr381>,
>;
pub type LigeroMlPC = LinearCodePCS<
    MultilinearLigero<Fr381, MTConfig, MlPoly<Fr381>, ColH<Fr381>>,
    Fr381,
    MlPoly<Fr381>,
    MTConfig,
    ColH<Fr381>,
>;
pub type BrakedownPC = LinearCodePCS<
    MultilinearBrakedown<Fr381, MTConfig, MlPoly<Fr381>, ColH<Fr381>>,
    Fr381,
    MlPoly<Fr381>,
    MTConfig,
    ColH<Fr381>,
>;

// ---------------------------------------------------------------------------------------------
// polynomial / point constructors

fn nonzero<F: Field>(rng: &mut ChaCha20Rng) -> F {
    loop {
        let x = F::rand(rng);
        if !x.is_zero() {
            return x;
        }
    }
}

pub fn uni_poly<F: PrimeField>(spec: &PolySpec, rng: &mut ChaCha20Rng) -> UniPoly<F> {
    match spec.cls.as_str() {
        "zero" => UniPoly::<F>::zero(),
        "const" => UniPoly::from_coefficients_vec(vec![nonzero(rng)]),
        "lowz" => {
            // X^lz * q with deg total = spec.deg
            let lz = spec.lz.max(1) as usize;
            let deg = (spec.deg as usize).max(lz);
            let mut c = vec![F::zero(); lz];
            for _ in lz..=deg {
                c.push(nonzero(rng));
            }
            UniPoly::from_coefficients_vec(c)
        }
        "sparse" => {
            // only the constant and the leading coefficient are non-zero
            let deg = spec.deg.max(1) as usize;
            let mut c = vec![F::zero(); deg + 1];
            c[0] = nonzero(rng);
            c[deg] = nonzero(rng);
            UniPoly::from_coefficients_vec(c)
        }
        _ => {
            let deg = spec.deg.max(0) as usize;
            let c: Vec<F> = (0..=deg).map(|_| nonzero(rng)).collect();
            UniPoly::from_coefficients_vec(c)
        }
    }
}

pub fn point_fe<F: PrimeField>(id: i64) -> F {
    // ids 5, 6, 7 are the algebraically special points -1, 0, 1 (roots of unity and the origin are
    // where challenge-reuse and shift mistakes cancel); every other id is a seeded random element
    match id {
        5 => return -F::one(),
        6 => return F::zero(),
        7 => return F::one(),
        _ => {}
    }
    let mut rng = rng_for("point", id as u64);
    nonzero(&mut rng)
}

/// All exponent vectors (as sparse terms) of total degree exactly d in n variables.
pub fn monomials(n: usize, d: usize) -> Vec<Vec<usize>> {
    fn rec(n: usize, d: usize, cur: &mut Vec<usize>, out: &mut Vec<Vec<usize>>) {
        if cur.len() == n - 1 {
            let mut v = cur.clone();
            v.push(d - cur.iter().sum::<usize>());
            out.push(v);
            return;
        }
        let used: usize = cur.iter().sum();
        for e in 0..=(d - used) {
            cur.push(e);
            rec(n, d, cur, out);
            cur.pop();
        }
    }
    let mut out = vec![];
    if n == 0 {
        return out;
    }
    rec(n, d, &mut vec![], &mut out);
    out
}

pub fn sparse_term(exps: &[usize]) -> SparseTerm {
    SparseTerm::new(
        exps.iter()
            .enumerate()
            .filter(|(_, e)| **e > 0)
            .map(|(i, e)| (i, *e))
            .collect(),
    )
}

pub fn mv_poly<F: PrimeField>(spec: &PolySpec, nv: usize, rng: &mut ChaCha20Rng) -> MvPoly<F> {
    let deg = spec.deg.max(0) as usize;
    match spec.cls.as_str() {
        // the zero polynomial in `nv` variables (`P::zero()` would have 0 variables)
        "zero" => MvPoly::from_coefficients_vec(nv, vec![]),
        "zero0" => MvPoly::<F>::zero(),
        "const" => MvPoly::from_coefficients_vec(nv, vec![(nonzero(rng), SparseTerm::new(vec![]))]),
        "uni" => {
            // only monomials in the first variable
            let terms = (0..=deg)
                .map(|e| (nonzero(rng), sparse_term(&{
                    let mut v = vec![0; nv];
                    v[0] = e;
                    v
                })))
                .collect();
            MvPoly::from_coefficients_vec(nv, terms)
        }
        "unilast" => {
            // only monomials in the LAST variable: same degree and number of terms as "uni", other support
            let terms = (0..=deg)
                .map(|e| (nonzero(rng), sparse_term(&{
                    let mut v = vec![0; nv];
                    v[nv - 1] = e;
                    v
                })))
                .collect();
            MvPoly::from_coefficients_vec(nv, terms)
        }
        "mixed" => {
            // a few genuinely mixed monomials of the top degree plus a constant
            let mut terms = vec![(nonzero(rng), SparseTerm::new(vec![]))];
            let ms = monomials(nv, deg);
            for m in ms.iter().filter(|m| m.iter().filter(|e| **e > 0).count() >= 2.min(nv)) {
                terms.push((nonzero(rng), sparse_term(m)));
            }
            if terms.len() == 1 {
                for m in ms.iter() {
                    terms.push((nonzero(rng), sparse_term(m)));
                }
            }
            MvPoly::from_coefficients_vec(nv, terms)
        }
        _ => {
            // dense: every monomial of degree <= deg
            let mut terms = vec![];
            for d in 0..=deg {
                for m in monomials(nv, d) {
                    terms.push((nonzero(rng), sparse_term(&m)));
                }
            }
            MvPoly::from_coefficients_vec(nv, terms)
        }
    }
}

pub fn ml_poly<F: PrimeField>(spec: &PolySpec, nv: usize, rng: &mut ChaCha20Rng) -> MlPoly<F> {
    let n = 1usize << nv;
    let evals: Vec<F> = match spec.cls.as_str() {
        "zero" => vec![F::zero(); n],
        "const" => {
            let c = nonzero(rng);
            vec![c; n]
        }
        "sparse" => {
            let mut v = vec![F::zero(); n];
            v[0] = nonzero(rng);
            v[n - 1] = nonzero(rng);
            v
        }
        _ => (0..n).map(|_| nonzero(rng)).collect(),
    };
    MlPoly::from_evaluations_vec(nv, evals)
}

pub fn point_vec<F: PrimeField>(id: i64, nv: usize) -> Vec<F> {
    match id {
        5 => return vec![-F::one(); nv],
        6 => return vec![F::zero(); nv],
        7 => return vec![F::one(); nv],
        _ => {}
    }
    let mut rng = rng_for("pointvec", id as u64);
    (0..nv).map(|_| nonzero(&mut rng)).collect()
}

/// number of variables of a multilinear polynomial: class "nv" asks for `deg` variables
/// (a wrong-number-of-variables request), every other class uses the key's number
fn ml_nv(spec: &PolySpec, beh: &Beh) -> usize {
    if spec.cls == "nv" {
        spec.deg.max(0) as usize
    } else {
        nv_of(beh)
    }
}

fn nv_of(beh: &Beh) -> usize {
    beh.num_vars.max(0) as usize
}

// ---------------------------------------------------------------------------------------------
// adapters

pub struct Marlin;
impl Adapter for Marlin {
    type F = Fr381;
    type Pt = Fr381;
    type P = UniPoly<Fr381>;
    type UP = <MarlinPC as PolynomialCommitment<Fr381, UniPoly<Fr381>>>::UniversalParams;
    type Pr = <MarlinPC as PolynomialCommitment<Fr381, UniPoly<Fr381>>>::Proof;
    type PC = MarlinPC;
    const NAME: &'static str = "marlin";
    const FAMILY: &'static str = "uni";
    fn make_poly(spec: &PolySpec, _beh: &Beh, rng: &mut ChaCha20Rng) -> Self::P {
        uni_poly(spec, rng)
    }
    fn reference_check(vk: &VK<Self>, comms: &[&LabeledCommitment<Comm<Self>>], point: &Self::Pt, values: &[Self::F], proof: &Proof<Self>, sp: &mut LogSponge<Self::F>) -> Option<bool> {
        crate::relation::marlin(vk, comms, point, values, proof, sp)
    }
    fn vk_variant(kind: &str, vk: &VK<Self>, rng: &mut ChaCha20Rng) -> Option<VK<Self>> {
        let mut v = vk.clone();
        let g1 = |rng: &mut ChaCha20Rng| <E381 as Pairing>::G1::rand(rng).into_affine();
        let g2 = |rng: &mut ChaCha20Rng| <E381 as Pairing>::G2::rand(rng).into_affine();
        match kind {
            "g" => v.vk.g = g1(rng),
            "gamma_g" => v.vk.gamma_g = g1(rng),
            "h" => { v.vk.h = g2(rng); v.vk.prepared_h = v.vk.h.into(); }
            "beta_h" => { v.vk.beta_h = g2(rng); v.vk.prepared_beta_h = v.vk.beta_h.into(); }
            "shift" => match v.degree_bounds_and_shift_powers.as_mut() {
                Some(t) if !t.is_empty() => { let n = t.len(); t[n - 1].1 = g1(rng); }
                _ => return None,
            },
            _ => return None,
        }
        Some(v)
    }
    fn shift_witness(vk: &VK<Self>, proof: &mut Proof<Self>, e: Self::F) -> bool {
        proof.w = (proof.w.into_group() + vk.vk.g.into_group() * e).into_affine();
        true
    }
    fn point_coord0(pt: &Self::Pt) -> Option<Self::F> {
        Some(*pt)
    }
    fn make_point(id: i64, _beh: &Beh) -> Self::Pt {
        point_fe(id)
    }
    fn comm_variant(
        kind: &str,
        c: &Comm<Self>,
        other: Option<&Comm<Self>>,
        rng: &mut ChaCha20Rng,
    ) -> Option<Comm<Self>> {
        let mut c = c.clone();
        match kind {
            "drop_shifted" => {
                c.shifted_comm.as_ref()?;
                c.shifted_comm = None;
            }
            "foreign_shifted" => {
                c.shifted_comm.as_ref()?;
                c.shifted_comm = Some(other?.shifted_comm?);
            }
            "random_comm" => {
                c.comm = ark_poly_commit::kzg10::Commitment(
                    <E381 as Pairing>::G1::rand(rng).into_affine(),
                );
            }
            "random_shifted" => {
                c.shifted_comm.as_ref()?;
                c.shifted_comm = Some(ark_poly_commit::kzg10::Commitment(
                    <E381 as Pairing>::G1::rand(rng).into_affine(),
                ));
            }
            _ => return None,
        }
        Some(c)
    }
    fn proof_mutation(
        kind: &str,
        _k: i64,
        p: &mut Proof<Self>,
        _other: Option<&Proof<Self>>,
        rng: &mut ChaCha20Rng,
    ) -> bool {
        kzg_proof_mutation::<E381>(kind, p, rng)
    }
    fn proof_components(p: &Proof<Self>) -> Vec<String> {
        kzg_proof_components::<E381>(p)
    }
}

fn kzg_proof_components<E: Pairing>(p: &ark_poly_commit::kzg10::Proof<E>) -> Vec<String> {
    let mut v = vec!["w".to_string()];
    if p.random_v.is_some() {
        v.push("random_v".to_string());
    }
    v
}

fn kzg_proof_mutation<E: Pairing>(
    kind: &str,
    p: &mut ark_poly_commit::kzg10::Proof<E>,
    rng: &mut ChaCha20Rng,
) -> bool {
    match kind {
        "replace:w" => {
            p.w = E::G1::rand(rng).into_affine();
            true
        }
        "replace:random_v" => {
            if p.random_v.is_none() {
                return false;
            }
            p.random_v = Some(E::ScalarField::rand(rng));
            true
        }
        "drop_random_v" => {
            if p.random_v.is_none() {
                return false;
            }
            p.random_v = None;
            true
        }
        "add_random_v" => {
            if p.random_v.is_some() {
                return false;
            }
            p.random_v = Some(E::ScalarField::rand(rng));
            true
        }
        _ => false,
    }
}

pub struct Sonic;
impl Adapter for Sonic {
    type F = Fr381;
    type Pt = Fr381;
    type P = UniPoly<Fr381>;
    type UP = <SonicPC as PolynomialCommitment<Fr381, UniPoly<Fr381>>>::UniversalParams;
    type Pr = <SonicPC as PolynomialCommitment<Fr381, UniPoly<Fr381>>>::Proof;
    type PC = SonicPC;
    const NAME: &'static str = "sonic";
    const FAMILY: &'static str = "uni";
    fn make_poly(spec: &PolySpec, _beh: &Beh, rng: &mut ChaCha20Rng) -> Self::P {
        uni_poly(spec, rng)
    }
    fn reference_check(vk: &VK<Self>, comms: &[&LabeledCommitment<Comm<Self>>], point: &Self::Pt, values: &[Self::F], proof: &Proof<Self>, sp: &mut LogSponge<Self::F>) -> Option<bool> {
        crate::relation::sonic(vk, comms, point, values, proof, sp)
    }
    fn vk_variant(kind: &str, vk: &VK<Self>, rng: &mut ChaCha20Rng) -> Option<VK<Self>> {
        let mut v = vk.clone();
        let g1 = |rng: &mut ChaCha20Rng| <E381 as Pairing>::G1::rand(rng).into_affine();
        let g2 = |rng: &mut ChaCha20Rng| <E381 as Pairing>::G2::rand(rng).into_affine();
        match kind {
            "g" => v.g = g1(rng),
            "gamma_g" => v.gamma_g = g1(rng),
            "h" => { v.h = g2(rng); v.prepared_h = v.h.into(); }
            "beta_h" => { v.beta_h = g2(rng); v.prepared_beta_h = v.beta_h.into(); }
            "shift" => match v.degree_bounds_and_neg_powers_of_h.as_mut() {
                Some(t) if !t.is_empty() => { let n = t.len(); t[n - 1].1 = g2(rng); }
                _ => return None,
            },
            _ => return None,
        }
        Some(v)
    }
    fn shift_witness(vk: &VK<Self>, proof: &mut Proof<Self>, e: Self::F) -> bool {
        proof.w = (proof.w.into_group() + vk.g.into_group() * e).into_affine();
        true
    }
    fn point_coord0(pt: &Self::Pt) -> Option<Self::F> {
        Some(*pt)
    }
    fn make_point(id: i64, _beh: &Beh) -> Self::Pt {
        point_fe(id)
    }
    fn comm_variant(
        kind: &str,
        _c: &Comm<Self>,
        _other: Option<&Comm<Self>>,
        rng: &mut ChaCha20Rng,
    ) -> Option<Comm<Self>> {
        match kind {
            "random_comm" => Some(ark_poly_commit::kzg10::Commitment(
                <E381 as Pairing>::G1::rand(rng).into_affine(),
            )),
            _ => None,
        }
    }
    fn proof_mutation(
        kind: &str,
        _k: i64,
        p: &mut Proof<Self>,
        _other: Option<&Proof<Self>>,
        rng: &mut ChaCha20Rng,
    ) -> bool {
        kzg_proof_mutation::<E381>(kind, p, rng)
    }
    fn proof_components(p: &Proof<Self>) -> Vec<String> {
        kzg_proof_components::<E381>(p)
    }
}

pub struct Ipa;
impl Adapter for Ipa {
    type F = FrEd;
    type Pt = FrEd;
    type P = UniPoly<FrEd>;
    type UP = <IpaPC as PolynomialCommitment<FrEd, UniPoly<FrEd>>>::UniversalParams;
    type Pr = <IpaPC as PolynomialCommitment<FrEd, UniPoly<FrEd>>>::Proof;
    type PC = IpaPC;
    const NAME: &'static str = "ipa";
    const FAMILY: &'static str = "uni";
    fn make_poly(spec: &PolySpec, _beh: &Beh, rng: &mut ChaCha20Rng) -> Self::P {
        uni_poly(spec, rng)
    }
    fn reference_check(vk: &VK<Self>, comms: &[&LabeledCommitment<Comm<Self>>], point: &Self::Pt, values: &[Self::F], proof: &Proof<Self>, sp: &mut LogSponge<Self::F>) -> Option<bool> {
        crate::relation::ipa(vk, comms, point, values, proof, sp)
    }
    fn vk_variant(kind: &str, vk: &VK<Self>, rng: &mut ChaCha20Rng) -> Option<VK<Self>> {
        let mut v = vk.clone();
        let g = |rng: &mut ChaCha20Rng| <GEd as AffineRepr>::Group::rand(rng).into_affine();
        match kind {
            "h" => v.h = g(rng),
            "s" => v.s = g(rng),
            "g" => v.comm_key[0] = g(rng),
            "shift" => { let n = v.comm_key.len(); v.comm_key[n - 1] = g(rng); }
            _ => return None,
        }
        Some(v)
    }
    fn make_point(id: i64, _beh: &Beh) -> Self::Pt {
        point_fe(id)
    }
    fn comm_variant(
        kind: &str,
        c: &Comm<Self>,
        other: Option<&Comm<Self>>,
        rng: &mut ChaCha20Rng,
    ) -> Option<Comm<Self>> {
        let mut c = c.clone();
        match kind {
            "drop_shifted" => {
                c.shifted_comm.as_ref()?;
                c.shifted_comm = None;
            }
            "foreign_shifted" => {
                c.shifted_comm.as_ref()?;
                c.shifted_comm = Some(other?.shifted_comm?);
            }
            "random_comm" => {
                c.comm = <GEd as AffineRepr>::Group::rand(rng).into_affine();
            }
            "random_shifted" => {
                c.shifted_comm.as_ref()?;
                c.shifted_comm = Some(<GEd as AffineRepr>::Group::rand(rng).into_affine());
            }
            _ => return None,
        }
        Some(c)
    }
    fn forge_group(
        kind: &str,
        vk: &VK<Self>,
        comms: &[&LabeledCommitment<Comm<Self>>],
        point: &Self::Pt,
        values: &[Self::F],
        proof: &Proof<Self>,
        sp: &mut LogSponge<Self::F>,
    ) -> Option<Proof<Self>> {
        if kind != "forge_ipa_key" {
            return None;
        }
        let k = crate::relation::ipa_forged_final_key(vk, comms, point, values, proof, sp)?;
        let mut p = proof.clone();
        p.final_comm_key = k;
        Some(p)
    }
    fn forge_extra_round(
        ck: &CK<Self>,
        polys: &[&ark_poly_commit::LabeledPolynomial<Self::F, Self::P>],
        comms: &[&LabeledCommitment<Comm<Self>>],
        point: &Self::Pt,
        sp: &mut LogSponge<Self::F>,
        states: &[&CState<Self>],
        rng: &mut ChaCha20Rng,
    ) -> Option<(Proof<Self>, Self::F)> {
        use ark_poly::DenseUVPolynomial;
        if polys.is_empty() || polys.iter().any(|p| p.degree_bound().is_some()) {
            return None;
        }
        let n = ck.comm_key.len();
        let mut fake = ck.clone();
        fake.comm_key.extend(std::iter::repeat(<GEd as AffineRepr>::zero()).take(n));
        let mut coeffs = polys[0].polynomial().coeffs.clone();
        coeffs.resize(n, Self::F::zero());
        for _ in 0..n {
            coeffs.push(Self::F::rand(rng));
        }
        let big = ark_poly_commit::LabeledPolynomial::new(
            polys[0].label().clone(),
            UniPoly::<Self::F>::from_coefficients_vec(coeffs),
            None,
            polys[0].hiding_bound(),
        );
        let mut ps: Vec<&ark_poly_commit::LabeledPolynomial<Self::F, Self::P>> = vec![&big];
        ps.extend(polys.iter().skip(1).cloned());
        let mut prng = crate::common::LogRng::new(0xf0e9);
        let proof = match guarded(|| {
            Self::PC::open(&fake, ps.iter().cloned(), comms.iter().cloned(), point, sp, states.iter().cloned(), Some(&mut prng as &mut dyn RngCore))
        }) {
            Out::Ok(p) => p,
            _ => return None,
        };
        let v = big.evaluate(point);
        if v == polys[0].evaluate(point) {
            return None;
        }
        Some((proof, v))
    }
    fn proof_mutation(
        kind: &str,
        k: i64,
        p: &mut Proof<Self>,
        _other: Option<&Proof<Self>>,
        rng: &mut ChaCha20Rng,
    ) -> bool {
        let rg = |rng: &mut ChaCha20Rng| <GEd as AffineRepr>::Group::rand(rng).into_affine();
        match kind {
            "replace:l0" => {
                if p.l_vec.is_empty() {
                    return false;
                }
                p.l_vec[0] = rg(rng);
                true
            }
            "replace:r_last" => {
                if p.r_vec.is_empty() {
                    return false;
                }
                let n = p.r_vec.len();
                p.r_vec[n - 1] = rg(rng);
                true
            }
            "replace:l_last" => {
                if p.l_vec.len() < 2 {
                    return false;
                }
                let n = p.l_vec.len();
                p.l_vec[n - 1] = rg(rng);
                true
            }
            "replace:r0" => {
                if p.r_vec.len() < 2 {
                    return false;
                }
                p.r_vec[0] = rg(rng);
                true
            }
            "replace:final_comm_key" => {
                p.final_comm_key = rg(rng);
                true
            }
            "replace:c" => {
                p.c = FrEd::rand(rng);
                true
            }
            "replace:hiding_comm" => {
                if p.hiding_comm.is_none() {
                    return false;
                }
                p.hiding_comm = Some(rg(rng));
                true
            }
            "replace:rand" => {
                if p.rand.is_none() {
                    return false;
                }
                p.rand = Some(FrEd::rand(rng));
                true
            }
            // rounds: drop k rounds (k>0) or add |k| identity-padded rounds (k<0)
            "rounds" => {
                if k > 0 {
                    let k = k as usize;
                    if p.l_vec.len() < k {
                        return false;
                    }
                    let n = p.l_vec.len() - k;
                    p.l_vec.truncate(n);
                    p.r_vec.truncate(n);
                } else {
                    for _ in 0..(-k) {
                        p.l_vec.push(GEd::zero());
                        p.r_vec.push(GEd::zero());
                    }
                }
                true
            }
            "rounds_unequal" => {
                if p.l_vec.is_empty() {
                    return false;
                }
                p.l_vec.pop();
                true
            }
            "drop_hiding_comm" => {
                if p.hiding_comm.is_none() {
                    return false;
                }
                p.hiding_comm = None;
                true
            }
            _ => false,
        }
    }
    fn proof_components(p: &Proof<Self>) -> Vec<String> {
        let mut v = vec!["final_comm_key".to_string(), "c".to_string()];
        if !p.l_vec.is_empty() {
            v.push("l0".into());
            v.push("r_last".into());
        }
        if p.hiding_comm.is_some() {
            v.push("hiding_comm".into());
            v.push("rand".into());
        }
        v
    }
}

pub struct Pst13;
impl Adapter for Pst13 {
    type F = Fr381;
    type Pt = Vec<Fr381>;
    type P = MvPoly<Fr381>;
    type UP = <Pst13PC as PolynomialCommitment<Fr381, MvPoly<Fr381>>>::UniversalParams;
    type Pr = <Pst13PC as PolynomialCommitment<Fr381, MvPoly<Fr381>>>::Proof;
    type PC = Pst13PC;
    const NAME: &'static str = "pst13";
    const FAMILY: &'static str = "mv";
    fn make_poly(spec: &PolySpec, beh: &Beh, rng: &mut ChaCha20Rng) -> Self::P {
        mv_poly(spec, nv_of(beh), rng)
    }
    fn reference_check(vk: &VK<Self>, comms: &[&LabeledCommitment<Comm<Self>>], point: &Self::Pt, values: &[Self::F], proof: &Proof<Self>, sp: &mut LogSponge<Self::F>) -> Option<bool> {
        crate::relation::pst13(vk, comms, point, values, proof, sp)
    }
    fn vk_variant(kind: &str, vk: &VK<Self>, rng: &mut ChaCha20Rng) -> Option<VK<Self>> {
        let mut v = vk.clone();
        let g1 = |rng: &mut ChaCha20Rng| <E381 as Pairing>::G1::rand(rng).into_affine();
        let g2 = |rng: &mut ChaCha20Rng| <E381 as Pairing>::G2::rand(rng).into_affine();
        match kind {
            "g" => v.g = g1(rng),
            "gamma_g" => v.gamma_g = g1(rng),
            "h" => { v.h = g2(rng); v.prepared_h = v.h.into(); }
            "beta_h" => { v.beta_h[0] = g2(rng); v.prepared_beta_h[0] = v.beta_h[0].into(); }
            "shift" => { let n = v.beta_h.len(); v.beta_h[n - 1] = g2(rng); v.prepared_beta_h[n - 1] = v.beta_h[n - 1].into(); }
            _ => return None,
        }
        Some(v)
    }
    fn shift_witness(vk: &VK<Self>, proof: &mut Proof<Self>, e: Self::F) -> bool {
        if proof.w.is_empty() {
            return false;
        }
        proof.w[0] = (proof.w[0].into_group() + vk.g.into_group() * e).into_affine();
        true
    }
    fn point_coord0(pt: &Self::Pt) -> Option<Self::F> {
        pt.first().cloned()
    }
    fn extra_witness(vk: &VK<Self>, pt: &mut Self::Pt, proof: &mut Proof<Self>, t: Self::F) -> bool {
        let e = Self::F::from(7u64);
        pt.push(e);
        proof.w.push((vk.g.into_group() * (t * e.inverse().unwrap())).into_affine());
        true
    }
    fn make_point(id: i64, beh: &Beh) -> Self::Pt {
        point_vec(id, nv_of(beh))
    }
    fn comm_variant(
        kind: &str,
        c: &Comm<Self>,
        _other: Option<&Comm<Self>>,
        rng: &mut ChaCha20Rng,
    ) -> Option<Comm<Self>> {
        let mut c = c.clone();
        match kind {
            "random_comm" => {
                c.comm = ark_poly_commit::kzg10::Commitment(
                    <E381 as Pairing>::G1::rand(rng).into_affine(),
                );
                Some(c)
            }
            _ => None,
        }
    }
    fn proof_mutation(
        kind: &str,
        k: i64,
        p: &mut Proof<Self>,
        _other: Option<&Proof<Self>>,
        rng: &mut ChaCha20Rng,
    ) -> bool {
        match kind {
            "replace:w0" => {
                if p.w.is_empty() {
                    return false;
                }
                p.w[0] = <E381 as Pairing>::G1::rand(rng).into_affine();
                true
            }
            "replace:w_last" => {
                if p.w.is_empty() {
                    return false;
                }
                let n = p.w.len();
                p.w[n - 1] = <E381 as Pairing>::G1::rand(rng).into_affine();
                true
            }
            "replace:random_v" => {
                if p.random_v.is_none() {
                    return false;
                }
                p.random_v = Some(Fr381::rand(rng));
                true
            }
            "drop_random_v" => {
                if p.random_v.is_none() {
                    return false;
                }
                p.random_v = None;
                true
            }
            // witness list shorter (k>0: drop k) or longer (k<0: append |k| identities)
            "wlen" => {
                if k > 0 {
                    let k = k as usize;
                    if p.w.len() < k {
                        return false;
                    }
                    let n = p.w.len() - k;
                    p.w.truncate(n);
                } else {
                    for _ in 0..(-k) {
                        p.w.push(<E381 as Pairing>::G1Affine::zero());
                    }
                }
                true
            }
            _ => false,
        }
    }
    fn proof_components(p: &Proof<Self>) -> Vec<String> {
        let mut v = vec![];
        if !p.w.is_empty() {
            v.push("w0".to_string());
            v.push("w_last".to_string());
        }
        if p.random_v.is_some() {
            v.push("random_v".into());
        }
        v
    }
}

pub struct Hyrax;
impl Adapter for Hyrax {
    type F = FrEd;
    type Pt = Vec<FrEd>;
    type P = MlPoly<FrEd>;
    type UP = <HyraxPCT as PolynomialCommitment<FrEd, MlPoly<FrEd>>>::UniversalParams;
    type Pr = <HyraxPCT as PolynomialCommitment<FrEd, MlPoly<FrEd>>>::Proof;
    type PC = HyraxPCT;
    const NAME: &'static str = "hyrax";
    const FAMILY: &'static str = "ml";
    fn make_poly(spec: &PolySpec, beh: &Beh, rng: &mut ChaCha20Rng) -> Self::P {
        ml_poly(spec, ml_nv(spec, beh), rng)
    }
    fn reference_check(vk: &VK<Self>, comms: &[&LabeledCommitment<Comm<Self>>], point: &Self::Pt, values: &[Self::F], proof: &Proof<Self>, sp: &mut LogSponge<Self::F>) -> Option<bool> {
        crate::relation::hyrax(vk, comms, point, values, proof, sp)
    }
    fn vk_variant(kind: &str, vk: &VK<Self>, rng: &mut ChaCha20Rng) -> Option<VK<Self>> {
        let mut v = vk.clone();
        let g = |rng: &mut ChaCha20Rng| <GEd as AffineRepr>::Group::rand(rng).into_affine();
        match kind {
            "h" => v.h = g(rng),
            "g" => v.com_key[0] = g(rng),
            "shift" => { let n = v.com_key.len(); v.com_key[n - 1] = g(rng); }
            _ => return None,
        }
        Some(v)
    }
    fn make_point(id: i64, beh: &Beh) -> Self::Pt {
        point_vec(id, nv_of(beh))
    }
    fn comm_variant(
        kind: &str,
        c: &Comm<Self>,
        _other: Option<&Comm<Self>>,
        rng: &mut ChaCha20Rng,
    ) -> Option<Comm<Self>> {
        let mut c = c.clone();
        match kind {
            "random_comm" => {
                if c.row_coms.is_empty() {
                    return None;
                }
                c.row_coms[0] = <GEd as AffineRepr>::Group::rand(rng).into_affine();
                Some(c)
            }
            "drop_row" => {
                c.row_coms.pop()?;
                Some(c)
            }
            _ => None,
        }
    }
    /// Here a "proof" is the per-polynomial list; `k` selects the entry (0-based) for replacements.
    fn proof_mutation(
        kind: &str,
        k: i64,
        p: &mut Proof<Self>,
        _other: Option<&Proof<Self>>,
        rng: &mut ChaCha20Rng,
    ) -> bool {
        let rg = |rng: &mut ChaCha20Rng| <GEd as AffineRepr>::Group::rand(rng).into_affine();
        if kind == "inner_empty" {
            if p.is_empty() {
                return false;
            }
            p.clear();
            return true;
        }
        if kind == "inner_trunc" {
            if p.is_empty() {
                return false;
            }
            p.pop();
            return true;
        }
        // replacements with k = 1 act on the LAST entry (the last polynomial's proof), which must be another one
        let idx = if kind.starts_with("replace:") && k == 1 {
            if p.len() < 2 {
                return false;
            }
            p.len() - 1
        } else {
            0
        };
        if p.len() <= idx {
            return false;
        }
        let e = &mut p[idx];
        match kind {
            "replace:com_eval" => e.com_eval = rg(rng),
            "replace:com_d" => e.com_d = rg(rng),
            "replace:com_b" => e.com_b = rg(rng),
            "replace:z0" => {
                if e.z.is_empty() {
                    return false;
                }
                e.z[0] = FrEd::rand(rng);
            }
            "replace:z_last" => {
                if e.z.len() < 2 {
                    return false;
                }
                let n = e.z.len();
                e.z[n - 1] = FrEd::rand(rng);
            }
            "replace:z_d" => e.z_d = FrEd::rand(rng),
            "replace:z_b" => e.z_b = FrEd::rand(rng),
            "zlen" => {
                if k > 0 {
                    let k = k as usize;
                    if e.z.len() < k {
                        return false;
                    }
                    let n = e.z.len() - k;
                    e.z.truncate(n);
                } else {
                    for _ in 0..(-k) {
                        e.z.push(FrEd::zero());
                    }
                }
            }
            _ => return false,
        }
        true
    }
    fn proof_components(p: &Proof<Self>) -> Vec<String> {
        if p.is_empty() {
            return vec![];
        }
        ["com_eval", "com_d", "com_b", "z0", "z_d", "z_b"]
            .iter()
            .map(|s| s.to_string())
            .collect()
    }
}

macro_rules! lincode_adapter {
    ($name:ident, $pc:ty, $enc:ty, $p:ty, $pt:ty, $sname:expr, $fam:expr, $mkpoly:expr, $mkpt:expr, $nowf:expr) => {
        pub struct $name;
        impl Adapter for $name {
            type F = Fr381;
            type Pt = $pt;
            type P = $p;
            type UP = <$pc as PolynomialCommitment<Fr381, $p>>::UniversalParams;
            type Pr = <$pc as PolynomialCommitment<Fr381, $p>>::Proof;
            type PC = $pc;
            const NAME: &'static str = $sname;
            const FAMILY: &'static str = $fam;
            fn make_poly(spec: &PolySpec, beh: &Beh, rng: &mut ChaCha20Rng) -> Self::P {
                $mkpoly(spec, beh, rng)
            }
            fn make_point(id: i64, beh: &Beh) -> Self::Pt {
                $mkpt(id, beh)
            }
            fn setup_without_wf(max_degree: usize, num_vars: Option<usize>, rng: &mut ChaCha20Rng) -> Option<Self::UP> {
                $nowf(max_degree, num_vars, rng)
            }
            fn comm_variant(
                kind: &str,
                c: &Comm<Self>,
                _other: Option<&Comm<Self>>,
                rng: &mut ChaCha20Rng,
            ) -> Option<Comm<Self>> {
                use ark_poly_commit::verif_api::linear_codes as lc;
                let (nr, nc, ne, mut root) = lc::commitment_parts::<MTConfig>(c);
                match kind {
                    "random_comm" => {
                        let mut b = [0u8; 32];
                        rng.fill_bytes(&mut b);
                        root = b.to_vec();
                        Some(lc::commitment_from_parts::<MTConfig>(nr, nc, ne, root))
                    }
                    _ => None,
                }
            }
            fn proof_mutation(
                kind: &str,
                k: i64,
                p: &mut Proof<Self>,
                _other: Option<&Proof<Self>>,
                rng: &mut ChaCha20Rng,
            ) -> bool {
                lincode_proof_mutation(kind, k, p, rng)
            }
            fn proof_components(p: &Proof<Self>) -> Vec<String> {
                if p.is_empty() {
                    return vec![];
                }
                ["v0", "wf0", "col0", "path0"].iter().map(|s| s.to_string()).collect()
            }
            fn reference_check(vk: &VK<Self>, comms: &[&LabeledCommitment<Comm<Self>>], point: &Self::Pt, values: &[Self::F], proof: &Proof<Self>, sp: &mut LogSponge<Self::F>) -> Option<bool> {
                use ark_poly_commit::verif_api::linear_codes as lc;
                let cs: Vec<_> = comms.iter().map(|c| lc::commitment_parts::<MTConfig>(c.commitment())).collect();
                $crate::relation::lincode::<$enc, $p>(vk, &cs, point, values, proof, sp)
            }
            fn forge(
                kind: &str,
                vk: &VK<Self>,
                comm: &Comm<Self>,
                state: &CState<Self>,
                point: &Self::Pt,
                sp: &LogSponge<Self::F>,
                rng: &mut ChaCha20Rng,
            ) -> Option<(Proof<Self>, Self::F)> {
                use ark_poly_commit::verif_api::linear_codes as lc;
                $crate::forge::forge::<$enc, $p, _, _>(
                    kind,
                    vk,
                    comm,
                    state,
                    point,
                    sp,
                    |c| lc::commitment_parts::<MTConfig>(c),
                    |s| lc::state_parts::<Fr381, ColH<Fr381>>(s),
                    rng,
                )
                .map(|(p, v)| (vec![p], v))
            }
        }
    };
}

type LcProof = ark_poly_commit::linear_codes::LinCodePCProof<Fr381, MTConfig>;

/// Mutations of a linear-code proof array (one entry per polynomial); all act on entry 0.
pub fn lincode_proof_mutation(
    kind: &str,
    k: i64,
    p: &mut Vec<LcProof>,
    rng: &mut ChaCha20Rng,
) -> bool {
    use ark_poly_commit::verif_api::linear_codes as lc;
    if kind == "inner_empty" {
        if p.is_empty() {
            return false;
        }
        p.clear();
        return true;
    }
    if kind == "inner_trunc" {
        if p.is_empty() {
            return false;
        }
        p.pop();
        return true;
    }
    if p.is_empty() {
        return false;
    }
    // replacements with k = 1 act on the LAST entry (the last polynomial's proof), which must be another one
    let ei = if (kind.starts_with("replace:") || kind.starts_with("sibling:") || kind.starts_with("authpath:")) && k == 1 {
        if p.len() < 2 {
            return false;
        }
        p.len() - 1
    } else {
        0
    };
    let (mut paths, mut v, mut cols, mut wf) = lc::proof_parts(&p[ei]);
    match kind {
        "replace:v0" => {
            if v.is_empty() {
                return false;
            }
            v[0] = Fr381::rand(rng);
        }
        "replace:wf0" => match wf.as_mut() {
            Some(w) if !w.is_empty() => w[0] = Fr381::rand(rng),
            _ => return false,
        },
        "replace:col0" => {
            if cols.is_empty() || cols[0].is_empty() {
                return false;
            }
            cols[0][0] = Fr381::rand(rng);
        }
        "replace:path0" => {
            // the authentication path of another leaf
            if paths.len() < 2 {
                return false;
            }
            let mut j = 1;
            while j < paths.len() && paths[j].leaf_index == paths[0].leaf_index {
                j += 1;
            }
            if j == paths.len() {
                return false;
            }
            paths[0] = paths[j].clone();
        }
        // ---- the same kinds of replacement at the LAST position of each list, and at a position whose leaf
        // index already occurred earlier in the opening (every element is part of the relation, not only the first)
        "replace:v_last" => {
            if v.len() < 2 {
                return false;
            }
            let n = v.len();
            v[n - 1] = Fr381::rand(rng);
        }
        "replace:wf_last" => match wf.as_mut() {
            Some(w) if w.len() >= 2 => {
                let n = w.len();
                w[n - 1] = Fr381::rand(rng)
            }
            _ => return false,
        },
        "replace:col_last" => {
            if cols.len() < 2 || cols[cols.len() - 1].is_empty() {
                return false;
            }
            let n = cols.len();
            let m = cols[n - 1].len();
            cols[n - 1][m - 1] = Fr381::rand(rng);
        }
        "sibling:path_last" | "sibling:path_repeat" | "authpath:path_repeat" => {
            if paths.len() < 2 {
                return false;
            }
            // the last position; for *_repeat the last position whose leaf index occurred before
            let mut j = paths.len() - 1;
            if kind != "sibling:path_last" {
                let mut found = None;
                for a in (1..paths.len()).rev() {
                    if paths[..a].iter().any(|q| q.leaf_index == paths[a].leaf_index) {
                        found = Some(a);
                        break;
                    }
                }
                match found {
                    Some(a) => j = a,
                    None => return false,
                }
            }
            let mut b = [0u8; 32];
            rng.fill_bytes(&mut b);
            if kind == "authpath:path_repeat" {
                if paths[j].auth_path.is_empty() {
                    return false;
                }
                let m = paths[j].auth_path.len();
                paths[j].auth_path[m - 1] = b.to_vec();
            } else {
                paths[j].leaf_sibling_hash = b.to_vec();
            }
        }
        "path_sibling" => {
            // corrupt one sibling hash of path 0 but keep its leaf index
            if paths.is_empty() {
                return false;
            }
            let mut b = [0u8; 32];
            rng.fill_bytes(&mut b);
            paths[0].leaf_sibling_hash = b.to_vec();
        }
        "drop_wf" => {
            if wf.is_none() {
                return false;
            }
            wf = None;
        }
        "cols_repeat" => {
            // every opened column replaced by column 0 (and its path)
            if cols.len() < 2 {
                return false;
            }
            let c0 = cols[0].clone();
            let p0 = paths[0].clone();
            for c in cols.iter_mut() {
                *c = c0.clone();
            }
            for q in paths.iter_mut() {
                *q = p0.clone();
            }
        }
        "cols_shift" => {
            if cols.len() < 2 {
                return false;
            }
            cols.rotate_left(1);
            paths.rotate_left(1);
        }
        "cols_trunc" => {
            if cols.is_empty() {
                return false;
            }
            let n = cols.len() - (k.max(1) as usize).min(cols.len());
            cols.truncate(n);
            paths.truncate(n);
        }
        "v_trunc" => {
            if v.len() < 2 {
                return false;
            }
            v.pop();
        }
        "v_extend" => {
            v.push(Fr381::zero());
        }
        _ => return false,
    }
    p[ei] = lc::proof_from_parts(paths, v, cols, wf);
    true
}

lincode_adapter!(
    LigeroUni,
    LigeroUniPC,
    UnivariateLigero<Fr381, MTConfig, UniPoly<Fr381>, ColH<Fr381>>,
    UniPoly<Fr381>,
    Fr381,
    "ligero_uni",
    "uni",
    |spec: &PolySpec, _beh: &Beh, rng: &mut ChaCha20Rng| uni_poly::<Fr381>(spec, rng),
    |id: i64, _beh: &Beh| point_fe::<Fr381>(id),
    |_md: usize, _nv: Option<usize>, _rng: &mut ChaCha20Rng| Some(ark_poly_commit::linear_codes::LigeroPCParams::<Fr381, MTConfig, ColH<Fr381>>::new(128, 4, false, (), (), ()))
);
lincode_adapter!(
    LigeroMl,
    LigeroMlPC,
    MultilinearLigero<Fr381, MTConfig, MlPoly<Fr381>, ColH<Fr381>>,
    MlPoly<Fr381>,
    Vec<Fr381>,
    "ligero_ml",
    "ml",
    |spec: &PolySpec, beh: &Beh, rng: &mut ChaCha20Rng| ml_poly::<Fr381>(spec, ml_nv(spec, beh), rng),
    |id: i64, beh: &Beh| point_vec::<Fr381>(id, nv_of(beh)),
    |_md: usize, _nv: Option<usize>, _rng: &mut ChaCha20Rng| Some(ark_poly_commit::linear_codes::LigeroPCParams::<Fr381, MTConfig, ColH<Fr381>>::new(128, 4, false, (), (), ()))
);
lincode_adapter!(
    Brakedown,
    BrakedownPC,
    MultilinearBrakedown<Fr381, MTConfig, MlPoly<Fr381>, ColH<Fr381>>,
    MlPoly<Fr381>,
    Vec<Fr381>,
    "brakedown",
    "ml",
    |spec: &PolySpec, beh: &Beh, rng: &mut ChaCha20Rng| ml_poly::<Fr381>(spec, ml_nv(spec, beh), rng),
    |id: i64, beh: &Beh| point_vec::<Fr381>(id, nv_of(beh)),
    |_md: usize, nv: Option<usize>, rng: &mut ChaCha20Rng| nv.map(|n| ark_poly_commit::linear_codes::BrakedownPCParams::<Fr381, MTConfig, ColH<Fr381>>::default(rng, 1 << n, false, (), (), ()))
);

/// Dispatch a generic function over the scheme name.
#[macro_export]
macro_rules! with_adapter {
    ($name:expr, $f:ident, $($arg:expr),*) => {
        match $name {
            "marlin" => $f::<$crate::adapter::Marlin>($($arg),*),
            "sonic" => $f::<$crate::adapter::Sonic>($($arg),*),
            "ipa" => $f::<$crate::adapter::Ipa>($($arg),*),
            "pst13" => $f::<$crate::adapter::Pst13>($($arg),*),
            "hyrax" => $f::<$crate::adapter::Hyrax>($($arg),*),
            "ligero_uni" => $f::<$crate::adapter::LigeroUni>($($arg),*),
            "ligero_ml" => $f::<$crate::adapter::LigeroMl>($($arg),*),
            "brakedown" => $f::<$crate::adapter::Brakedown>($($arg),*),
            other => panic!("unknown scheme {}", other),
        }
    };
}

#[allow(dead_code)]
pub fn one<F: Field>() -> F {
    F::one()
}
