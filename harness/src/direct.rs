//! Replay of `spec/DirectSession.tla` behaviours against the commitment APIs that are not behind the
//! `PolynomialCommitment` trait: `kzg10::KZG10`, `streaming_kzg` and `multilinear_pc::MultilinearPC`.
//! A statement is a tuple of parallel lists; every artefact named by provenance in the behaviour is built
//! with the library's own prover, then mutated as the behaviour says, then shown to the library's verifier.
use crate::common::*;
use ark_bls12_381::{Bls12_381 as E, Fr, G1Affine, G1Projective, G2Affine, G2Projective};
use ark_ec::CurveGroup;
use ark_ff::{One, UniformRand, Zero};
use ark_poly::{
    univariate::DensePolynomial, DenseMultilinearExtension, DenseUVPolynomial, MultilinearExtension,
    Polynomial,
};
use ark_poly_commit::kzg10::{self, KZG10};
use ark_poly_commit::multilinear_pc::{self, MultilinearPC};
use ark_poly_commit::streaming_kzg as sk;
use ark_poly_commit::PCCommitmentState;
use ark_std::rand::RngCore;
use serde_json::{json, Value};
use std::borrow::Cow;

type UP = DensePolynomial<Fr>;
type K = KZG10<E, UP>;

fn geti(v: &Value, k: &str) -> i64 {
    v[k].as_i64().unwrap_or_else(|| panic!("field {} missing in {}", k, v))
}
fn gets<'a>(v: &'a Value, k: &str) -> &'a str {
    v[k].as_str().unwrap_or_else(|| panic!("field {} missing in {}", k, v))
}
fn arr<'a>(v: &'a Value, k: &str) -> &'a Vec<Value> {
    v[k].as_array().unwrap_or_else(|| panic!("array {} missing in {}", k, v))
}

/// point id -> field element (distinct, seeded)
fn point(id: i64) -> Fr {
    Fr::rand(&mut rng_for("direct-point", id as u64))
}
fn decision(o: &Out<bool>) -> &'static str {
    match o {
        Out::Ok(true) => "accept",
        Out::Ok(false) => "reject",
        Out::Err(_) => "err",
        Out::Panic(_) => "panic",
    }
}

/// C12: which artefact is sent through canonical serialization on the way, and in which mode
fn ser_of(b: &Value) -> Option<(String, i64)> {
    let a = b["stmt"]["ser"].as_array()?;
    Some((a[0].as_str()?.to_string(), a[1].as_i64()?))
}
fn wants(ser: &Option<(String, i64)>, what: &str) -> Option<i64> {
    match ser {
        Some((a, m)) if a == what || a == "all" => Some(*m),
        _ => None,
    }
}
fn rt<T: ark_serialize::CanonicalSerialize + ark_serialize::CanonicalDeserialize + Clone>(
    x: &T,
    ser: &Option<(String, i64)>,
    what: &str,
    errs: &mut Vec<String>,
) -> T {
    match wants(ser, what) {
        Some(m) => {
            let mut n = 0usize;
            crate::session::roundtrip(x, m, what, errs, &mut n).unwrap_or_else(|| x.clone())
        }
        None => x.clone(),
    }
}

#[derive(Default)]
struct DObs {
    batch: String,
    batch2: String,
    detail: String,
    singles: Vec<String>,
    claims_true: bool,
    equal_lens: bool,
    setup: String,
    ser_errors: Vec<String>,
}

// ------------------------------------------------------------------------------------------------ kzg10
struct KzgCtx {
    powers_g: Vec<G1Affine>,
    powers_gamma: Vec<G1Affine>,
    vk: kzg10::VerifierKey<E>,
    polys: Vec<UP>,
    comms: Vec<kzg10::Commitment<E>>,
    rands: Vec<kzg10::Randomness<Fr, UP>>,
}

impl KzgCtx {
    fn powers(&self) -> kzg10::Powers<'_, E> {
        kzg10::Powers { powers_of_g: Cow::Borrowed(&self.powers_g), powers_of_gamma_g: Cow::Borrowed(&self.powers_gamma) }
    }
}

fn uni_poly(cls: &str, idx: usize, deg: usize, tag: &str) -> UP {
    match cls {
        "zero" => UP::from_coefficients_vec(vec![]),
        "const" => UP::from_coefficients_vec(vec![Fr::from(10u64 + idx as u64)]),
        _ => {
            let mut rng = rng_for(tag, idx as u64);
            let mut c: Vec<Fr> = (0..=deg).map(|_| Fr::rand(&mut rng)).collect();
            if c[deg].is_zero() {
                c[deg] = Fr::one();
            }
            UP::from_coefficients_vec(c)
        }
    }
}

fn kzg_pp(maxd: usize) -> Result<std::sync::Arc<kzg10::UniversalParams<E>>, String> {
    use std::collections::HashMap;
    use std::sync::{Arc, Mutex, OnceLock};
    static CACHE: OnceLock<Mutex<HashMap<usize, Arc<kzg10::UniversalParams<E>>>>> = OnceLock::new();
    let m = CACHE.get_or_init(|| Mutex::new(HashMap::new()));
    if let Some(p) = m.lock().unwrap().get(&maxd) {
        return Ok(p.clone());
    }
    let mut rng = rng_for("direct-kzg-setup", maxd as u64);
    let pp = Arc::new(guarded(|| K::setup(maxd, false, &mut rng)).ok().ok_or("setup failed")?);
    m.lock().unwrap().insert(maxd, pp.clone());
    Ok(pp)
}

fn kzg_ctx(b: &Value) -> Result<KzgCtx, String> {
    let mut e = vec![];
    kzg_ctx_ser(b, &None, &mut e)
}

fn kzg_ctx_ser(b: &Value, ser: &Option<(String, i64)>, errs: &mut Vec<String>) -> Result<KzgCtx, String> {
    let maxd = geti(&b["cfg"], "maxd") as usize;
    let sup = geti(&b["cfg"], "sup") as usize;
    let pp = kzg_pp(maxd)?;
    let pp: kzg10::UniversalParams<E> = rt(&*pp, ser, "pp", errs);
    let powers_g = pp.powers_of_g[..=sup].to_vec();
    // (as many hiding powers as the parameters publish up to sup + 2: a view with more hiding powers than plain
    //  ones is what a key trimmed with hiding bound > supported degree hands out)
    let top_gamma = (sup + 2).min(maxd + 1);
    let powers_gamma: Vec<G1Affine> = (0..=top_gamma).map(|i| pp.powers_of_gamma_g[&i]).collect();
    let (powers_g, powers_gamma) = {
        let pw = kzg10::Powers::<E> { powers_of_g: Cow::Owned(powers_g), powers_of_gamma_g: Cow::Owned(powers_gamma) };
        let pw = rt(&pw, ser, "powers", errs);
        (pw.powers_of_g.to_vec(), pw.powers_of_gamma_g.to_vec())
    };
    let vk = kzg10::VerifierKey {
        g: pp.powers_of_g[0],
        gamma_g: pp.powers_of_gamma_g[&0],
        h: pp.h,
        beta_h: pp.beta_h,
        prepared_h: pp.prepared_h.clone(),
        prepared_beta_h: pp.prepared_beta_h.clone(),
    };
    let vk = rt(&vk, ser, "vk", errs);
    let mut ctx = KzgCtx { powers_g, powers_gamma, vk, polys: vec![], comms: vec![], rands: vec![] };
    for (i, ps) in arr(b, "polys").iter().enumerate() {
        let p = uni_poly(gets(ps, "cls"), i + 1, sup, "direct-kzg-poly");
        let hid = geti(ps, "hid");
        let mut crng = rng_for("direct-kzg-commit", i as u64);
        let r = guarded(|| {
            K::commit(&ctx.powers(), &p, if hid >= 0 { Some(hid as usize) } else { None }, Some(&mut crng as &mut dyn RngCore))
        });
        match r {
            Out::Ok((c, rd)) => {
                ctx.comms.push(rt(&c, ser, "comm", errs));
                ctx.rands.push(rt(&rd, ser, "rand", errs));
                ctx.polys.push(p);
            }
            o => return Err(format!("commit of polynomial {} failed: {} {}", i + 1, o.class(), o.detail())),
        }
    }
    Ok(ctx)
}

fn kzg_value(ctx: &KzgCtx, v: &Value) -> Fr {
    let p = geti(v, "p") as usize;
    let d = geti(v, "d");
    let base = ctx.polys[p - 1].evaluate(&point(geti(v, "pt")));
    if d >= 0 { base + Fr::from(d as u64) } else { base - Fr::from((-d) as u64) }
}

fn kzg_proof(ctx: &KzgCtx, pr: &Value, salt: u64) -> Result<kzg10::Proof<E>, String> {
    let p = geti(pr, "p") as usize;
    let z = point(geti(pr, "pt"));
    let o = guarded(|| K::open(&ctx.powers(), &ctx.polys[p - 1], z, &ctx.rands[p - 1]));
    let mut proof = match o {
        Out::Ok(p) => p,
        o => return Err(format!("open failed: {} {}", o.class(), o.detail())),
    };
    let mut rng = rng_for("direct-kzg-mut", salt);
    match gets(pr, "mut") {
        "none" => {}
        "w_rand" => proof.w = G1Projective::rand(&mut rng).into_affine(),
        "rv_plus" => proof.random_v = proof.random_v.map(|v| v + Fr::one()),
        "rv_drop" => proof.random_v = None,
        "rv_add" => proof.random_v = Some(Fr::rand(&mut rng)),
        m => return Err(format!("unknown proof mutation {}", m)),
    }
    Ok(proof)
}

fn kzg_comm(ctx: &KzgCtx, c: &Value, salt: u64) -> kzg10::Commitment<E> {
    let src = c.as_i64().unwrap();
    if src == 0 {
        kzg10::Commitment(G1Projective::rand(&mut rng_for("direct-kzg-rcomm", salt)).into_affine())
    } else {
        ctx.comms[src as usize - 1]
    }
}

struct KzgLists {
    comms: Vec<kzg10::Commitment<E>>,
    points: Vec<Fr>,
    vals: Vec<Fr>,
    proofs: Vec<kzg10::Proof<E>>,
    claims_true: bool,
    equal: bool,
}

fn kzg_lists(ctx: &KzgCtx, s: &Value) -> Result<KzgLists, String> {
    let comms: Vec<_> = arr(s, "comms").iter().enumerate().map(|(i, c)| kzg_comm(ctx, c, i as u64)).collect();
    let points: Vec<Fr> = arr(s, "points").iter().map(|p| point(p.as_i64().unwrap())).collect();
    let vals: Vec<Fr> = arr(s, "vals").iter().map(|v| kzg_value(ctx, v)).collect();
    let mut proofs = vec![];
    for (i, pr) in arr(s, "proofs").iter().enumerate() {
        proofs.push(kzg_proof(ctx, pr, i as u64)?);
    }
    // cross-proof compensation for unit randomizers (see spec/DirectSession.tla, plan compensate_unit)
    if let Some(c) = s["comp"].as_array() {
        let (i, j) = (c[0].as_u64().unwrap() as usize - 1, c[1].as_u64().unwrap() as usize - 1);
        if i < proofs.len() && j < proofs.len() && i < points.len() && j < points.len() && points[i] != points[j] {
            use ark_ff::Field;
            let d = Fr::from(geti(&arr(s, "vals")[i], "d").unsigned_abs());
            let e = d * (points[i] - points[j]).inverse().unwrap();
            let g = ctx.vk.g;
            proofs[i].w = (proofs[i].w + g * e).into_affine();
            proofs[j].w = (proofs[j].w + g * (-e)).into_affine();
        }
    }
    let equal = comms.len() == points.len() && points.len() == vals.len() && vals.len() == proofs.len();
    // concrete truth of what is claimed: a claim is a complete (commitment, point, value) triple,
    // value_i == polynomial(comms_i)(points_i), and there is exactly one proof per claim
    let n_claims = comms.len().min(points.len()).min(vals.len());
    let mut claims_true = proofs.len() == n_claims;
    if claims_true {
        for (i, c) in arr(s, "comms").iter().enumerate().take(n_claims) {
            let src = c.as_i64().unwrap();
            if src == 0 || ctx.polys[src as usize - 1].evaluate(&points[i]) != vals[i] {
                claims_true = false;
            }
        }
    }
    Ok(KzgLists { comms, points, vals, proofs, claims_true, equal })
}

fn kzg_singles(ctx: &KzgCtx, l: &KzgLists) -> Vec<String> {
    let n = l.comms.len().min(l.points.len()).min(l.vals.len()).min(l.proofs.len());
    (0..n)
        .map(|i| decision(&guarded(|| K::check(&ctx.vk, &l.comms[i], l.points[i], l.vals[i], &l.proofs[i]))).to_string())
        .collect()
}

fn run_kzg(b: &Value) -> Result<DObs, String> {
    let ser = ser_of(b);
    let mut errs = vec![];
    let ctx = kzg_ctx_ser(b, &ser, &mut errs)?;
    let mut l = kzg_lists(&ctx, &b["stmt"])?;
    l.proofs = l.proofs.iter().map(|p| rt(p, &ser, "proof", &mut errs)).collect();
    let mut o = DObs { setup: "ok".into(), claims_true: l.claims_true, equal_lens: l.equal, ser_errors: errs, ..Default::default() };
    let r1 = guarded(|| K::batch_check(&ctx.vk, &l.comms, &l.points, &l.vals, &l.proofs, &mut rng_for("direct-kzg-vrng", 1)));
    let r2 = guarded(|| K::batch_check(&ctx.vk, &l.comms, &l.points, &l.vals, &l.proofs, &mut rng_for("direct-kzg-vrng", 2)));
    o.batch = decision(&r1).into();
    o.batch2 = decision(&r2).into();
    o.detail = r1.detail();
    o.singles = kzg_singles(&ctx, &l);
    Ok(o)
}

// ------------------------------------------------------------------------------------------------ streaming
fn run_stream(b: &Value) -> Result<DObs, String> {
    let maxd = geti(&b["cfg"], "maxd") as usize;
    let maxpts = geti(&b["cfg"], "maxpts") as usize;
    let ck = sk::CommitterKey::<E>::new(maxd, maxpts, &mut rng_for("direct-stream-setup", (maxd * 16 + maxpts) as u64));
    let vk = sk::VerifierKey::from(&ck);
    let polys: Vec<Vec<Fr>> = arr(b, "polys")
        .iter()
        .enumerate()
        .map(|(i, ps)| uni_poly(gets(ps, "cls"), i + 1, maxd, "direct-stream-poly").coeffs)
        .collect();
    let comms: Vec<sk::Commitment<E>> = polys.iter().map(|p| ck.commit(p)).collect();
    let comm_of = |c: &Value, salt: u64| -> sk::Commitment<E> {
        let src = c.as_i64().unwrap();
        if src == 0 {
            ark_poly_commit::verif_api::streaming_kzg::commitment_from_point::<E>(
                G1Projective::rand(&mut rng_for("direct-stream-rcomm", salt)).into_affine(),
            )
        } else {
            comms[src as usize - 1]
        }
    };
    let eta_of = |id: i64| Fr::rand(&mut rng_for("direct-stream-eta", id as u64));
    let value_of = |v: &Value| -> Fr {
        let p = geti(v, "p") as usize;
        let d = geti(v, "d");
        let base = UP::from_coefficients_slice(&polys[p - 1]).evaluate(&point(geti(v, "pt")));
        if d >= 0 { base + Fr::from(d as u64) } else { base - Fr::from((-d) as u64) }
    };
    let s = &b["stmt"];
    let mut o = DObs { setup: "ok".into(), equal_lens: true, ..Default::default() };
    // ---- multi-point statement
    let pr = &s["proof"];
    let pps: Vec<&Vec<Fr>> = arr(pr, "ps").iter().map(|p| &polys[p.as_i64().unwrap() as usize - 1]).collect();
    let ppts: Vec<Fr> = arr(pr, "pts").iter().map(|p| point(p.as_i64().unwrap())).collect();
    let peta = eta_of(geti(pr, "eta"));
    let proof = match guarded_plain(|| ck.batch_open_multi_points(&pps, &ppts, &peta)) {
        Out::Ok(p) => p,
        o2 => return Err(format!("batch_open_multi_points failed: {} {}", o2.class(), o2.detail())),
    };
    let proof = match gets(pr, "mut") {
        "none" => proof,
        _ => sk::EvaluationProof(G1Projective::rand(&mut rng_for("direct-stream-mut", 0)).into_affine()),
    };
    let vcomms: Vec<_> = arr(s, "comms").iter().enumerate().map(|(i, c)| comm_of(c, i as u64)).collect();
    let vpts: Vec<Fr> = arr(s, "points").iter().map(|p| point(p.as_i64().unwrap())).collect();
    let vvals: Vec<Vec<Fr>> = arr(s, "vals").iter().map(|row| row.as_array().unwrap().iter().map(|v| value_of(v)).collect()).collect();
    let veta = eta_of(geti(s, "eta"));
    let r = guarded(|| vk.verify_multi_points(&vcomms, &vpts, &vvals, &proof, &veta).map(|_| true));
    o.batch = match &r {
        Out::Err(_) => "reject".into(), // VerificationError is this API's "false"
        x => decision(x).into(),
    };
    o.batch2 = o.batch.clone();
    o.detail = r.detail();
    let mut truth = vvals.len() == vcomms.len();
    if truth {
        for (k, c) in arr(s, "comms").iter().enumerate() {
            let src = c.as_i64().unwrap();
            if vvals[k].len() != vpts.len() {
                truth = false;
                continue;
            }
            for (j, z) in vpts.iter().enumerate() {
                if src == 0 || UP::from_coefficients_slice(&polys[src as usize - 1]).evaluate(z) != vvals[k][j] {
                    truth = false;
                }
            }
        }
    }
    // ---- single-point statement
    let s1 = &s["single"];
    let c1 = comm_of(&arr(s1, "comms")[0], 99);
    let z1 = point(arr(s1, "points")[0].as_i64().unwrap());
    let v1 = value_of(&arr(s1, "vals")[0]);
    let p1 = &arr(s1, "proofs")[0];
    let (_, proof1) = ck.open(&polys[geti(p1, "p") as usize - 1], &point(geti(p1, "pt")));
    let r1 = guarded(|| vk.verify(&c1, &z1, &v1, &proof1).map(|_| true));
    o.singles = vec![match &r1 {
        Out::Err(_) => "reject".to_string(),
        x => decision(x).to_string(),
    }];
    let src1 = arr(s1, "comms")[0].as_i64().unwrap();
    let truth1 = src1 != 0 && UP::from_coefficients_slice(&polys[src1 as usize - 1]).evaluate(&z1) == v1;
    o.claims_true = truth && truth1;
    // the two halves are judged separately
    o.detail = format!("{}|multi_true={} single_true={}", o.detail, truth, truth1);
    Ok(o)
}

// ------------------------------------------------------------------------------------------------ multilinear PST
fn ml_poly(cls: &str, idx: usize, nv: usize) -> DenseMultilinearExtension<Fr> {
    let n = 1usize << nv;
    let evals: Vec<Fr> = match cls {
        "zero" => vec![Fr::zero(); n],
        "const" => vec![Fr::from(10u64 + idx as u64); n],
        _ => {
            let mut rng = rng_for("direct-ml-poly", idx as u64);
            (0..n).map(|_| Fr::rand(&mut rng)).collect()
        }
    };
    DenseMultilinearExtension::from_evaluations_vec(nv, evals)
}

fn run_ml(b: &Value) -> Result<DObs, String> {
    let nv = geti(&b["cfg"], "nv") as usize;
    let sup = geti(&b["cfg"], "sup") as usize;
    let ser = ser_of(b);
    let mut errs = vec![];
    let pp = MultilinearPC::<E>::setup(nv, &mut rng_for("direct-ml-setup", nv as u64));
    let pp = rt(&pp, &ser, "pp", &mut errs);
    let (ck, vk) = match guarded_plain(|| MultilinearPC::<E>::trim(&pp, sup)) {
        Out::Ok(k) => k,
        o => return Err(format!("trim failed: {}", o.detail())),
    };
    let ck = rt(&ck, &ser, "ck", &mut errs);
    let vk = rt(&vk, &ser, "vk", &mut errs);
    let polys: Vec<_> = arr(b, "polys").iter().enumerate().map(|(i, ps)| ml_poly(gets(ps, "cls"), i + 1, sup)).collect();
    let comms: Vec<multilinear_pc::data_structures::Commitment<E>> = polys.iter().map(|p| MultilinearPC::<E>::commit(&ck, p)).collect();
    let pt_of = |id: i64| -> Vec<Fr> {
        let mut rng = rng_for("direct-ml-point", id as u64);
        (0..sup).map(|_| Fr::rand(&mut rng)).collect()
    };
    let s = &b["stmt"];
    let src = s["comm"].as_i64().unwrap();
    let comm = if src == 0 {
        multilinear_pc::data_structures::Commitment { nv: sup, g_product: G1Projective::rand(&mut rng_for("direct-ml-rcomm", 0)).into_affine() }
    } else {
        comms[src as usize - 1].clone()
    };
    let mut pt = pt_of(geti(&s["point"], "id"));
    let full_pt = pt.clone();
    match geti(&s["point"], "dlen") {
        1 => pt.push(Fr::rand(&mut rng_for("direct-ml-extra", 0))),
        -1 => {
            pt.pop();
        }
        _ => {}
    }
    let v = &s["val"];
    let d = geti(v, "d");
    let base = polys[geti(v, "p") as usize - 1].evaluate(&pt_of(geti(v, "pt")));
    let val = if d >= 0 { base + Fr::from(d as u64) } else { base - Fr::from((-d) as u64) };
    let pr = &s["proof"];
    let mut proof = match guarded_plain(|| MultilinearPC::<E>::open(&ck, &polys[geti(pr, "p") as usize - 1], &pt_of(geti(pr, "pt")))) {
        Out::Ok(p) => p,
        o => return Err(format!("open failed: {}", o.detail())),
    };
    let mut rng = rng_for("direct-ml-mut", 0);
    match gets(pr, "mut") {
        "none" => {}
        "elem_rand" => {
            let i = (rng.next_u32() as usize) % proof.proofs.len();
            proof.proofs[i] = G2Projective::rand(&mut rng).into_affine();
        }
        "drop_last" => {
            proof.proofs.pop();
        }
        "extra" => proof.proofs.push(G2Projective::rand(&mut rng).into_affine()),
        "identity_long" => {
            use ark_ec::AffineRepr;
            let n = proof.proofs.len() + 1;
            proof.proofs = vec![G2Affine::zero(); n];
        }
        m => return Err(format!("unknown proof mutation {}", m)),
    }
    let _: &Vec<G2Affine> = &proof.proofs;
    let proof = rt(&proof, &ser, "proof", &mut errs);
    let comm = rt(&comm, &ser, "comm", &mut errs);
    let r = guarded_plain(|| MultilinearPC::<E>::check(&vk, &comm, &pt, val, &proof));
    let r: Out<bool> = match r {
        Out::Ok(b) => Out::Ok(b),
        Out::Err(e) => Out::Err(e),
        Out::Panic(e) => Out::Panic(e),
    };
    let mut o = DObs { setup: "ok".into(), equal_lens: true, ser_errors: errs, ..Default::default() };
    o.batch = decision(&r).into();
    o.batch2 = o.batch.clone();
    o.detail = r.detail();
    // the point the statement names (an over-long point names the same first coordinates)
    o.claims_true = src != 0 && polys[src as usize - 1].evaluate(&full_pt) == val;
    Ok(o)
}

// ------------------------------------------------------------------------------------------------ admission (C17)
/// One request at a boundary magnitude; returns ("ok" | "refuse", detail, continuation verdict).
fn run_adm(b: &Value) -> (String, String, Option<String>) {
    let api = gets(b, "api");
    let r = &b["stmt"];
    let op = gets(r, "op");
    let cls = |o: &str| if o == "ok" { "ok".to_string() } else { "refuse".to_string() };
    match api {
        "kzg10" => {
            let sup = geti(&b["cfg"], "sup") as usize;
            let mut base = b.clone();
            base["polys"] = json!([]);
            let ctx = match kzg_ctx(&base) {
                Ok(c) => c,
                Err(e) => return ("refuse".into(), format!("harness: {}", e), None),
            };
            let deg = geti(r, "deg") as usize;
            let p = uni_poly("full", 1, deg, "direct-adm-poly");
            let z = point(1);
            if op == "open" {
                let o = guarded(|| K::open(&ctx.powers(), &p, z, &kzg10::Randomness::<Fr, UP>::empty()));
                return (cls(o.class()), o.detail(), None);
            }
            let hid = geti(r, "hid");
            let with_rng = r["rng"].as_bool().unwrap_or(true);
            let mut crng = rng_for("direct-adm-rng", 0);
            let o = guarded(|| {
                K::commit(
                    &ctx.powers(),
                    &p,
                    if hid >= 0 { Some(hid as usize) } else { None },
                    if with_rng { Some(&mut crng as &mut dyn RngCore) } else { None },
                )
            });
            let c = cls(o.class());
            let d = o.detail();
            let mut cont = None;
            if let Out::Ok((comm, rd)) = o {
                // honest continuation: the admitted commitment opens and verifies
                let pr = guarded(|| K::open(&ctx.powers(), &p, z, &rd));
                cont = Some(match pr {
                    Out::Ok(proof) => decision(&guarded(|| K::check(&ctx.vk, &comm, z, p.evaluate(&z), &proof))).to_string(),
                    o2 => format!("open {}: {}", o2.class(), o2.detail()),
                });
                let _ = sup;
            }
            (c, d, cont)
        }
        "mlpst" => {
            let nv = geti(&b["cfg"], "nv") as usize;
            let sup = geti(&b["cfg"], "sup") as usize;
            let n = geti(r, "nv") as usize;
            if op == "setup" {
                let o = guarded_plain(|| MultilinearPC::<E>::setup(n, &mut rng_for("direct-adm-ml", n as u64)));
                return (cls(o.class()), o.detail(), None);
            }
            let pp = MultilinearPC::<E>::setup(nv, &mut rng_for("direct-ml-setup", nv as u64));
            if op == "trim" {
                let o = guarded_plain(|| MultilinearPC::<E>::trim(&pp, n));
                return (cls(o.class()), o.detail(), None);
            }
            let (ck, vk) = MultilinearPC::<E>::trim(&pp, sup);
            let p = ml_poly("full", 1, n);
            let mut prng = rng_for("direct-adm-mlpt", n as u64);
            let pt: Vec<Fr> = (0..n).map(|_| Fr::rand(&mut prng)).collect();
            if op == "open" {
                let o = guarded_plain(|| MultilinearPC::<E>::open(&ck, &p, &pt));
                return (cls(o.class()), o.detail(), None);
            }
            let o = guarded_plain(|| MultilinearPC::<E>::commit(&ck, &p));
            let c = cls(o.class());
            let d = o.detail();
            let mut cont = None;
            if let Out::Ok(comm) = o {
                let pr = guarded_plain(|| MultilinearPC::<E>::open(&ck, &p, &pt));
                cont = Some(match pr {
                    Out::Ok(proof) => match guarded_plain(|| MultilinearPC::<E>::check(&vk, &comm, &pt, p.evaluate(&pt), &proof)) {
                        Out::Ok(true) => "accept".to_string(),
                        Out::Ok(false) => "reject".to_string(),
                        o2 => format!("check {}: {}", o2.class(), o2.detail()),
                    },
                    o2 => format!("open {}: {}", o2.class(), o2.detail()),
                });
            }
            (c, d, cont)
        }
        _ => {
            let maxd = geti(&b["cfg"], "maxd") as usize;
            let maxpts = geti(&b["cfg"], "maxpts") as usize;
            let ck = sk::CommitterKey::<E>::new(maxd, maxpts, &mut rng_for("direct-stream-setup", (maxd * 16 + maxpts) as u64));
            let len = geti(r, "len") as usize;
            let p = uni_poly("full", 1, len - 1, "direct-adm-stream").coeffs;
            let o = guarded_plain(|| ck.commit(&p));
            (cls(o.class()), o.detail(), None)
        }
    }
}

// ------------------------------------------------------------------------------------------------ judge
pub fn run_line(b: &Value) -> Value {
    let api = gets(b, "api").to_string();
    let want = gets(b, "want").to_string();
    let id = b["id"].as_str().unwrap_or("").to_string();
    if gets(b, "tag") == "adm" {
        let (c, d, cont) = run_adm(b);
        let pred = b["model"][0]["res"].as_str().unwrap_or("").to_string();
        let (verdict, why) = if want == "refuse" && c == "ok" {
            ("violation", format!("{} {}: expected refusal, observed a result", api, b["stmt"]))
        } else if want == "ok" && c != "ok" {
            ("violation", format!("{} {}: in-domain request aborted or failed: {}", api, b["stmt"], d))
        } else if want == "ok" && cont.as_deref().map(|x| x != "accept").unwrap_or(false) {
            ("violation", format!("{} {}: admitted, but the honest continuation gives {}", api, b["stmt"], cont.clone().unwrap()))
        } else if pred != c {
            ("drift", format!("{} {}: model predicts {}, code {}", api, b["stmt"], pred, c))
        } else {
            ("ok", String::new())
        };
        return json!({"id": id, "prop": b["prop"], "scheme": api, "verdict": verdict, "why": why,
                      "obs": {"setup": c, "detail": d, "ops": [{"check": c, "continuation": cont}]}});
    }
    let r = match api.as_str() {
        "kzg10" => run_kzg(b),
        "stream" => run_stream(b),
        "mlpst" => run_ml(b),
        a => Err(format!("unknown api {}", a)),
    };
    let mk = |verdict: &str, why: String, o: &DObs| -> Value {
        json!({"id": id, "prop": b["prop"], "scheme": api, "verdict": verdict, "why": why,
               "obs": {"setup": o.setup, "detail": o.detail,
                       "ops": [{"check": o.batch, "check2": o.batch2, "singles_list": o.singles,
                                "claims_true": o.claims_true, "equal_lens": o.equal_lens}]}})
    };
    let o = match r {
        Ok(o) => o,
        // an honest artefact could not even be produced: completeness failure when the statement is honest
        Err(e) => {
            let o = DObs { setup: e.clone(), ..Default::default() };
            return if want == "accept" { mk("violation", format!("honest session failed: {}", e), &o) } else { mk("skip", e, &o) };
        }
    };
    if !o.ser_errors.is_empty() {
        return mk("violation", format!("serialization: {}", o.ser_errors[0]), &o);
    }
    let acc = o.batch == "accept";
    let singles_and = o.singles.iter().all(|s| s == "accept");
    let single_plan = want == "not_accept_single";
    // stream carries its own truth flags for the two halves
    let (multi_true, single_true) = if api == "stream" {
        (o.detail.contains("multi_true=true"), o.detail.contains("single_true=true"))
    } else {
        (o.claims_true, true)
    };
    if acc && !multi_true {
        return mk("violation", "a statement containing a false claim (or no matching claim) is accepted".into(), &o);
    }
    if api == "stream" && o.singles[0] == "accept" && !single_true {
        return mk("violation", "single verify accepts a false claim".into(), &o);
    }
    if api == "kzg10" {
        // every accepted single position must be a true claim
        // (claims_true covers the batch; positions are re-evaluated here through the batch truth when lists are equal)
        if o.batch != o.batch2 && (o.batch == "accept" || o.batch2 == "accept") {
            return mk("violation", format!("batch decision depends on the verifier RNG ({} vs {})", o.batch, o.batch2), &o);
        }
        if o.equal_lens && acc != singles_and {
            return mk("violation", format!("batch decision {} differs from AND of single checks {:?}", o.batch, o.singles), &o);
        }
    }
    match want.as_str() {
        "accept" => {
            if !acc || !singles_and {
                return mk("violation", format!("honest statement: batch {} singles {:?} ({})", o.batch, o.singles, o.detail), &o);
            }
        }
        "not_accept" => {
            if acc {
                return mk("violation", "expected not-accept, observed accept".into(), &o);
            }
        }
        "not_accept_single" => {
            if singles_and {
                return mk("violation", "single verify: expected not-accept, observed accept".into(), &o);
            }
        }
        _ => {}
    }
    let _ = single_plan;
    mk("ok", String::new(), &o)
}
