//! Behaviour records produced by TLC (`ToJson`) and the observation records the harness answers with.
use serde::{Deserialize, Serialize};

fn neg1() -> i64 {
    -1
}
fn dtrue() -> bool {
    true
}

#[derive(Deserialize, Serialize, Clone, Debug)]
pub struct PolySpec {
    /// label id (>= 1)
    pub l: i64,
    /// "zero" | "const" | "full" | "lowz" | "mixed" | "uni" | "sparse"
    pub cls: String,
    /// degree (univariate / multivariate total degree); ignored for multilinear
    #[serde(default)]
    pub deg: i64,
    /// number of low-order zero coefficients for class "lowz"
    #[serde(default)]
    pub lz: i64,
    /// degree bound, -1 = none
    #[serde(default = "neg1")]
    pub bound: i64,
    /// hiding bound, -1 = none
    #[serde(default = "neg1")]
    pub hid: i64,
}

#[derive(Deserialize, Serialize, Clone, Debug)]
pub struct LcSpec {
    pub l: i64,
    /// (coefficient code, term) ; term 0 = One, otherwise polynomial label.
    /// coefficient codes: small integers are themselves; 99 = seeded random element
    pub terms: Vec<(i64, i64)>,
}

#[derive(Deserialize, Serialize, Clone, Debug)]
pub struct Op {
    /// "open" | "batch" | "lc"
    pub kind: String,
    /// open: labels in prover order
    #[serde(default)]
    pub labels: Vec<i64>,
    /// open: point id
    #[serde(default)]
    pub pt: i64,
    /// batch: (poly label, point label, point id); lc: (lc label, point label, point id)
    #[serde(default)]
    pub qs: Vec<(i64, i64, i64)>,
    #[serde(default)]
    pub lcs: Vec<LcSpec>,
    /// open-stage admission: [label, bound] = the polynomial is handed to the prover declared with this
    /// degree bound (-1 = none) instead of the one it was committed under
    #[serde(default)]
    pub obound: Vec<i64>,
    /// permutation (of commit order positions, 1-based) applied to the prover's lists
    #[serde(default)]
    pub pperm: Vec<i64>,
    /// permutation applied to the verifier's commitment list
    #[serde(default)]
    pub vperm: Vec<i64>,
}

#[derive(Deserialize, Serialize, Clone, Debug, Default)]
pub struct Adv {
    pub kind: String,
    /// 1-based op index the move applies to
    #[serde(default)]
    pub op: i64,
    #[serde(default)]
    pub l: i64,
    #[serde(default)]
    pub l2: i64,
    #[serde(default)]
    pub pl: i64,
    #[serde(default)]
    pub pt: i64,
    #[serde(default)]
    pub pt2: i64,
    #[serde(default)]
    pub k: i64,
    #[serde(default)]
    pub d: i64,
    #[serde(default)]
    pub pat: String,
    #[serde(default)]
    pub comp: String,
    #[serde(default)]
    pub side: String,
}

#[derive(Deserialize, Serialize, Clone, Debug, Default)]
pub struct OpExpect {
    /// "ok" | "refuse" | "any"
    pub open: String,
    /// "accept" | "not_accept" | "any" | "na"
    pub check: String,
    /// expected lock-step of the two sponges after the op ("yes" | "any")
    #[serde(default)]
    pub lockstep: String,
}

#[derive(Deserialize, Serialize, Clone, Debug, Default)]
pub struct Expect {
    pub setup: String,
    pub trim: String,
    pub commit: String,
    #[serde(default)]
    pub ops: Vec<OpExpect>,
}

#[derive(Deserialize, Serialize, Clone, Debug)]
pub struct Beh {
    #[serde(default)]
    pub id: String,
    #[serde(default)]
    pub prop: String,
    pub scheme: String,
    pub max_degree: i64,
    #[serde(default = "neg1")]
    pub num_vars: i64,
    pub supported: i64,
    /// supported degree of a second trim whose verifier key is used (-1 = the verifier key of the first trim)
    #[serde(default = "neg1")]
    pub vsupported: i64,
    #[serde(default)]
    pub hiding: i64,
    /// presented list of enforced bounds; ignored when `nobounds`
    #[serde(default)]
    pub bounds: Vec<i64>,
    #[serde(default)]
    pub nobounds: bool,
    pub polys: Vec<PolySpec>,
    /// linear codes: the public option check_well_formedness the parameters are built with
    #[serde(default = "dtrue")]
    pub wf: bool,
    #[serde(default = "dtrue")]
    pub rng: bool,
    #[serde(default)]
    pub ops: Vec<Op>,
    #[serde(default)]
    pub adv: Vec<Adv>,
    #[serde(default)]
    pub expect: Expect,
    /// C12: canonical-serialization round trips to perform: (artefact, mode), mode = 2*compress + validate
    #[serde(default)]
    pub ser: Vec<(String, i64)>,
    /// free-form tag from the spec (which branch generated this)
    #[serde(default)]
    pub tag: String,
    /// why the specification expects a refusal, when there is a single named reason
    #[serde(default)]
    pub note: String,
}

#[derive(Serialize, Clone, Debug, Default)]
pub struct OpObs {
    pub open: String,
    pub open_detail: String,
    /// "accept" | "reject" | "err" | "panic" | "skipped"
    pub check: String,
    pub check_detail: String,
    pub lockstep: bool,
    /// decision under a second verifier RNG seed ("" if not run)
    pub check2: String,
    /// AND of per-group single checks ("" if not run / undefined)
    pub singles: String,
    /// were all claims shown to the verifier true of the committed polynomials? ("true"/"false"/"unknown")
    pub claims_true: String,
    pub n_proofs: usize,
    /// C10: decision of the independent reference relation ("accept" | "reject" | "" = not evaluated)
    pub reference: String,
    /// coarse shape of the sponge events of the prover's call / the verifier's call (Transcript.tla vocabulary)
    pub sp_shape_p: Vec<String>,
    pub sp_shape_v: Vec<String>,
}

#[derive(Serialize, Clone, Debug, Default)]
pub struct Obs {
    pub setup: String,
    pub trim: String,
    pub commit: String,
    pub detail: String,
    pub ops: Vec<OpObs>,
    /// adversary moves the harness could not apply (not applicable to this scheme/shape)
    pub skipped_adv: Vec<String>,
    /// C18: (step name, sha256 of the serialized output) when PCV_DIGESTS is set
    pub digests: Vec<(String, String)>,
    /// C12: failed serialization laws (empty = all round trips fine)
    pub ser_errors: Vec<String>,
    /// C12: number of round trips / truncated prefixes tried
    pub ser_checks: usize,
}

#[derive(Serialize, Clone, Debug)]
pub struct Verdict {
    pub id: String,
    pub prop: String,
    pub scheme: String,
    /// "ok" | "violation" | "drift" | "skip"
    pub verdict: String,
    pub why: String,
    pub obs: Obs,
}
