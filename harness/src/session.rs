//! Generic executor: replays one spec behaviour against the real library through the
//! `PolynomialCommitment` trait and reports what was observed.
use crate::adapter::*;
use crate::beh::*;
use crate::common::*;
use ark_ff::{Field, One, UniformRand, Zero};
use ark_poly::Polynomial;
use ark_poly_commit::{
    BatchLCProof, Evaluations, LCTerm, LabeledCommitment, LabeledPolynomial, LinearCombination,
    PolynomialCommitment, QuerySet,
};
use ark_serialize::{CanonicalDeserialize, CanonicalSerialize, Compress, Validate};
use ark_std::rand::{RngCore, SeedableRng};
use rand_chacha::ChaCha20Rng;
use std::any::Any;
use std::collections::{BTreeMap, BTreeSet, HashMap};
use std::sync::{Arc, Mutex, OnceLock};

type PCx<A> = <A as Adapter>::PC;

fn pp_cache() -> &'static Mutex<HashMap<String, Arc<dyn Any + Send + Sync>>> {
    static C: OnceLock<Mutex<HashMap<String, Arc<dyn Any + Send + Sync>>>> = OnceLock::new();
    C.get_or_init(|| Mutex::new(HashMap::new()))
}

/// `setup` with a deterministic seed, cached per (scheme, max_degree, num_vars).
pub fn cached_setup<A: Adapter>(max_degree: i64, num_vars: i64) -> Out<A::UP> {
    cached_setup_wf::<A>(max_degree, num_vars, true)
}

pub fn cached_setup_wf<A: Adapter>(max_degree: i64, num_vars: i64, wf: bool) -> Out<A::UP> {
    let key = format!("{}:{}:{}:{}:{}", A::NAME, max_degree, num_vars, verif_seed(), wf);
    if let Some(v) = pp_cache().lock().unwrap().get(&key) {
        if let Some(o) = v.downcast_ref::<Out<A::UP>>() {
            return o.clone();
        }
    }
    if max_degree < 0 {
        return Out::Err("negative".into());
    }
    let nv = if num_vars < 0 {
        None
    } else {
        Some(num_vars as usize)
    };
    let mut rng = rng_for(&format!("setup:{}", A::NAME), (max_degree * 1000 + num_vars) as u64);
    let mut out = guarded(|| PCx::<A>::setup(max_degree as usize, nv, &mut rng));
    if !wf && out.is_ok() {
        // same admission as the default setup (evaluated above), other parameters
        if let Out::Ok(Some(p)) = guarded_plain(|| A::setup_without_wf(max_degree as usize, nv, &mut rng)) {
            out = Out::Ok(p);
        }
    }
    pp_cache()
        .lock()
        .unwrap()
        .insert(key, Arc::new(out.clone()) as Arc<dyn Any + Send + Sync>);
    out
}

pub fn coeff_of<F: Field>(code: i64, tag: u64) -> F {
    match code {
        99 => {
            let mut r = rng_for("lccoeff", tag);
            F::rand(&mut r)
        }
        c if c >= 0 => F::from(c as u64),
        c => -F::from((-c) as u64),
    }
}

/// What the verifier is shown for one operation.
pub enum Stmt<A: Adapter> {
    Open {
        comms: Vec<LabeledCommitment<Comm<A>>>,
        labels: Vec<i64>,
        point: A::Pt,
        values: Vec<A::F>,
        proof: Proof<A>,
    },
    Batch {
        comms: Vec<LabeledCommitment<Comm<A>>>,
        qs: QuerySet<A::Pt>,
        evals: Evaluations<A::Pt, A::F>,
        proof: Vec<Proof<A>>,
    },
    Lc {
        lcs: Vec<LinearCombination<A::F>>,
        comms: Vec<LabeledCommitment<Comm<A>>>,
        qs: QuerySet<A::Pt>,
        evals: Evaluations<A::Pt, A::F>,
        proof: Vec<Proof<A>>,
        lc_evals: Option<Vec<A::F>>,
    },
}

pub struct Sess<'b, A: Adapter> {
    pub beh: &'b Beh,
    pub ck: CK<A>,
    pub vk: VK<A>,
    pub order: Vec<i64>,
    pub polys: BTreeMap<i64, LabeledPolynomial<A::F, A::P>>,
    pub comms: BTreeMap<i64, LabeledCommitment<Comm<A>>>,
    pub states: BTreeMap<i64, CState<A>>,
    pub sp_p: LogSponge<A::F>,
    pub sp_v: LogSponge<A::F>,
    pub bseed: u64,
}

fn hash_str(s: &str) -> u64 {
    let mut h: u64 = 1469598103934665603;
    for b in s.bytes() {
        h ^= b as u64;
        h = h.wrapping_mul(1099511628211);
    }
    h
}

fn opt(x: i64) -> Option<usize> {
    if x < 0 {
        None
    } else {
        Some(x as usize)
    }
}

pub fn labeled_poly<A: Adapter>(
    spec: &PolySpec,
    beh: &Beh,
    salt: u64,
) -> LabeledPolynomial<A::F, A::P> {
    let mut rng = rng_for("poly", hash_str(&beh.id) ^ (spec.l as u64) << 8 ^ salt << 32);
    let p = A::make_poly(spec, beh, &mut rng);
    // Two ways to the same labelled polynomial: built in one step, or labelled first (with the polynomial of
    // another behaviour-independent seed and the same class) and filled in through the public mutator.  Whatever
    // the library derives from the polynomial must be derived from the one it finally holds.
    if (hash_str(&beh.id) ^ spec.l as u64 ^ salt) % 2 == 0 {
        LabeledPolynomial::new(plabel(spec.l), p, opt(spec.bound), opt(spec.hid))
    } else {
        let mut lrng = rng_for("poly-placeholder", spec.l as u64);
        let small = PolySpec { l: spec.l, cls: "const".into(), deg: 0, lz: 0, bound: -1, hid: -1 };
        let q = A::make_poly(&small, beh, &mut lrng);
        let mut lp = LabeledPolynomial::new(plabel(spec.l), q, opt(spec.bound), opt(spec.hid));
        *lp.polynomial_mut() = p;
        lp
    }
}

fn build_qs<A: Adapter>(beh: &Beh, qs: &[(i64, i64, i64)], lc: bool) -> QuerySet<A::Pt> {
    let mut out = QuerySet::new();
    for (l, pl, pt) in qs {
        let lab = if lc { elabel(*l) } else { plabel(*l) };
        out.insert((lab, (qlabel(*pl), A::make_point(*pt, beh))));
    }
    out
}

fn build_lcs<A: Adapter>(beh: &Beh, lcs: &[LcSpec]) -> Vec<LinearCombination<A::F>> {
    lcs.iter()
        .map(|s| {
            let mut lc = LinearCombination::empty(elabel(s.l));
            for (i, (c, t)) in s.terms.iter().enumerate() {
                let coeff: A::F =
                    coeff_of(*c, hash_str(&beh.id) ^ ((s.l as u64) << 16) ^ i as u64);
                let term = if *t == 0 {
                    LCTerm::One
                } else {
                    LCTerm::PolyLabel(plabel(*t))
                };
                lc.push((coeff, term));
            }
            lc
        })
        .collect()
}

fn permuted<T: Clone>(v: &[T], perm: &[i64]) -> Vec<T> {
    if perm.is_empty() {
        return v.to_vec();
    }
    perm.iter()
        .filter_map(|i| v.get((*i - 1) as usize).cloned())
        .collect()
}

impl<'b, A: Adapter> Sess<'b, A> {
    fn lists(
        &self,
        perm: &[i64],
    ) -> (
        Vec<&LabeledPolynomial<A::F, A::P>>,
        Vec<&LabeledCommitment<Comm<A>>>,
        Vec<&CState<A>>,
    ) {
        let ord = permuted(&self.order, perm);
        (
            ord.iter().map(|l| &self.polys[l]).collect(),
            ord.iter().map(|l| &self.comms[l]).collect(),
            ord.iter().map(|l| &self.states[l]).collect(),
        )
    }

    /// Run the prover for `op` on sponge `sp`, with `replace` optionally substituting
    /// (polynomial, state) for some labels (commitments stay the original ones).
    pub fn prove(
        &self,
        op: &Op,
        sp: &mut LogSponge<A::F>,
        replace: &BTreeMap<i64, (LabeledPolynomial<A::F, A::P>, CState<A>)>,
        point_override: Option<(i64, i64)>,
        opidx: usize,
    ) -> Out<ProofObj<A>> {
        let mut rng = LogRng::new(self.bseed ^ 0x51ed ^ (opidx as u64) << 20);
        let use_rng = self.beh.rng;
        let poly_of = |l: &i64| replace.get(l).map(|x| &x.0).unwrap_or(&self.polys[l]);
        let state_of = |l: &i64| replace.get(l).map(|x| &x.1).unwrap_or(&self.states[l]);
        match op.kind.as_str() {
            "open" => {
                let missing = op.labels.iter().any(|l| !self.polys.contains_key(l));
                if missing {
                    return Out::Err("harness: unknown label in open".into());
                }
                let polys: Vec<_> = op.labels.iter().map(poly_of).collect();
                let comms: Vec<_> = op.labels.iter().map(|l| &self.comms[l]).collect();
                let states: Vec<_> = op.labels.iter().map(state_of).collect();
                let pt = match point_override {
                    Some((_, p2)) => p2,
                    None => op.pt,
                };
                let point = A::make_point(pt, self.beh);
                guarded(|| {
                    PCx::<A>::open(
                        &self.ck,
                        polys,
                        comms,
                        &point,
                        sp,
                        states,
                        if use_rng {
                            Some(&mut rng as &mut dyn RngCore)
                        } else {
                            None
                        },
                    )
                })
                .map_ok(ProofObj::Single)
            }
            "batch" => {
                let ord = permuted(&self.order, &op.pperm);
                let polys: Vec<_> = ord.iter().map(poly_of).collect();
                let comms: Vec<_> = ord.iter().map(|l| &self.comms[l]).collect();
                let states: Vec<_> = ord.iter().map(state_of).collect();
                let mut qsv = op.qs.clone();
                if let Some((pl, p2)) = point_override {
                    for q in qsv.iter_mut() {
                        if q.1 == pl {
                            q.2 = p2;
                        }
                    }
                }
                let qs = build_qs::<A>(self.beh, &qsv, false);
                guarded(|| {
                    PCx::<A>::batch_open(
                        &self.ck,
                        polys,
                        comms,
                        &qs,
                        sp,
                        states,
                        if use_rng {
                            Some(&mut rng as &mut dyn RngCore)
                        } else {
                            None
                        },
                    )
                })
                .map_ok(|bp| ProofObj::Batch(bp.into(), None))
            }
            "lc" => {
                let ord = permuted(&self.order, &op.pperm);
                let polys: Vec<_> = ord.iter().map(poly_of).collect();
                let comms: Vec<_> = ord.iter().map(|l| &self.comms[l]).collect();
                let states: Vec<_> = ord.iter().map(state_of).collect();
                let lcs = build_lcs::<A>(self.beh, &op.lcs);
                let qs = build_qs::<A>(self.beh, &op.qs, true);
                guarded(|| {
                    PCx::<A>::open_combinations(
                        &self.ck,
                        lcs.iter(),
                        polys,
                        comms,
                        &qs,
                        sp,
                        states,
                        if use_rng {
                            Some(&mut rng as &mut dyn RngCore)
                        } else {
                            None
                        },
                    )
                })
                .map_ok(|bl| ProofObj::Batch(bl.proof.into(), bl.evals))
            }
            k => Out::Err(format!("harness: unknown op kind {}", k)),
        }
    }

    /// Honest statement (true values) for `op` with the given proof.
    pub fn statement(&self, op: &Op, proof: ProofObj<A>) -> Stmt<A> {
        match (op.kind.as_str(), proof) {
            ("open", ProofObj::Single(p)) => {
                let point = A::make_point(op.pt, self.beh);
                Stmt::Open {
                    comms: op.labels.iter().map(|l| self.comms[l].clone()).collect(),
                    labels: op.labels.clone(),
                    values: op
                        .labels
                        .iter()
                        .map(|l| self.polys[l].evaluate(&point))
                        .collect(),
                    point,
                    proof: p,
                }
            }
            ("batch", ProofObj::Batch(p, _)) => {
                let qs = build_qs::<A>(self.beh, &op.qs, false);
                let mut evals = Evaluations::new();
                for (l, _pl, pt) in &op.qs {
                    let point = A::make_point(*pt, self.beh);
                    if let Some(poly) = self.polys.get(l) {
                        evals.insert((plabel(*l), point.clone()), poly.evaluate(&point));
                    }
                }
                let ord = permuted(&self.order, &op.vperm);
                Stmt::Batch {
                    comms: ord.iter().map(|l| self.comms[l].clone()).collect(),
                    qs,
                    evals,
                    proof: p,
                }
            }
            ("lc", ProofObj::Batch(p, lc_evals)) => {
                let lcs = build_lcs::<A>(self.beh, &op.lcs);
                let qs = build_qs::<A>(self.beh, &op.qs, true);
                let mut evals = Evaluations::new();
                for (l, _pl, pt) in &op.qs {
                    let point = A::make_point(*pt, self.beh);
                    if let Some(lc) = lcs.iter().find(|x| x.label() == &elabel(*l)) {
                        evals.insert((elabel(*l), point.clone()), self.lc_value(lc, &point));
                    }
                }
                let ord = permuted(&self.order, &op.vperm);
                Stmt::Lc {
                    lcs,
                    comms: ord.iter().map(|l| self.comms[l].clone()).collect(),
                    qs,
                    evals,
                    proof: p,
                    lc_evals,
                }
            }
            _ => unreachable!("proof object does not match op kind"),
        }
    }

    pub fn lc_value(&self, lc: &LinearCombination<A::F>, point: &A::Pt) -> A::F {
        let mut v = A::F::zero();
        for (c, t) in lc.iter() {
            match t {
                LCTerm::One => v += *c,
                LCTerm::PolyLabel(l) => {
                    if let Some(p) = self.polys.values().find(|p| p.label() == l) {
                        v += *c * p.evaluate(point);
                    }
                }
            }
        }
        v
    }

    /// Are all claims of the statement true of the committed polynomials (as labelled)?
    pub fn claims_true(&self, st: &Stmt<A>) -> bool {
        let by_label = |lab: &String| self.polys.values().find(|p| p.label() == lab);
        match st {
            Stmt::Open {
                comms,
                point,
                values,
                ..
            } => comms.iter().zip(values).all(|(c, v)| {
                by_label(c.label())
                    .map(|p| p.evaluate(point) == *v)
                    .unwrap_or(false)
            }),
            Stmt::Batch { qs, evals, .. } => qs.iter().all(|(l, (_pl, pt))| {
                match (by_label(l), evals.get(&(l.clone(), pt.clone()))) {
                    (Some(p), Some(v)) => p.evaluate(pt) == *v,
                    _ => false,
                }
            }),
            Stmt::Lc { lcs, qs, evals, .. } => qs.iter().all(|(l, (_pl, pt))| {
                match (
                    lcs.iter().find(|x| x.label() == l),
                    evals.get(&(l.clone(), pt.clone())),
                ) {
                    (Some(lc), Some(v)) => self.lc_value(lc, pt) == *v,
                    _ => false,
                }
            }),
        }
    }

    /// Run the verifier on `st` with sponge `sp` and verifier RNG seed `vseed`.
    pub fn verify(&self, st: &Stmt<A>, sp: &mut LogSponge<A::F>, vseed: u64) -> Out<bool> {
        let mut rng = ChaCha20Rng::seed_from_u64(vseed);
        match st {
            Stmt::Open {
                comms,
                point,
                values,
                proof,
                ..
            } => guarded(|| {
                PCx::<A>::check(
                    &self.vk,
                    comms.iter(),
                    point,
                    values.clone(),
                    proof,
                    sp,
                    Some(&mut rng as &mut dyn RngCore),
                )
            }),
            Stmt::Batch {
                comms,
                qs,
                evals,
                proof,
            } => {
                let bp: BProof<A> = proof.clone().into();
                guarded(|| PCx::<A>::batch_check(&self.vk, comms.iter(), qs, evals, &bp, sp, &mut rng))
            }
            Stmt::Lc {
                lcs,
                comms,
                qs,
                evals,
                proof,
                lc_evals,
            } => {
                let bp: BProof<A> = proof.clone().into();
                let blc = BatchLCProof {
                    proof: bp,
                    evals: lc_evals.clone(),
                };
                guarded(|| {
                    PCx::<A>::check_combinations(
                        &self.vk,
                        lcs.iter(),
                        comms.iter(),
                        qs,
                        evals,
                        &blc,
                        sp,
                        &mut rng,
                    )
                })
            }
        }
    }

    /// AND of the per-group single checks of a batch statement, run in group order on `sp`.
    /// `None` when the proof list does not have one proof per group.
    pub fn singles(&self, st: &Stmt<A>, sp: &mut LogSponge<A::F>) -> Option<Out<bool>> {
        if let Stmt::Batch {
            comms,
            qs,
            evals,
            proof,
        } = st
        {
            let cmap: BTreeMap<&String, &LabeledCommitment<Comm<A>>> =
                comms.iter().map(|c| (c.label(), c)).collect();
            let mut groups: BTreeMap<(&String, &A::Pt), (&A::Pt, BTreeSet<&String>)> = BTreeMap::new();
            for (l, (pl, pt)) in qs.iter() {
                groups.entry((pl, pt)).or_insert((pt, BTreeSet::new())).1.insert(l);
            }
            if groups.len() != proof.len() {
                return None;
            }
            let mut all = true;
            for ((_pl, (pt, labels)), pr) in groups.into_iter().zip(proof.iter()) {
                let mut cs = vec![];
                let mut vs = vec![];
                for l in labels {
                    match (cmap.get(l), evals.get(&(l.clone(), pt.clone()))) {
                        (Some(c), Some(v)) => {
                            cs.push(*c);
                            vs.push(*v);
                        }
                        _ => return Some(Out::Err("missing".into())),
                    }
                }
                let mut rng = ChaCha20Rng::seed_from_u64(7);
                let r = guarded(|| {
                    PCx::<A>::check(
                        &self.vk,
                        cs,
                        pt,
                        vs,
                        pr,
                        sp,
                        Some(&mut rng as &mut dyn RngCore),
                    )
                });
                match r {
                    Out::Ok(b) => all &= b,
                    other => return Some(other),
                }
            }
            Some(Out::Ok(all))
        } else {
            None
        }
    }
}

impl<'b, A: Adapter> Sess<'b, A> {
    /// The independent reference relation on a statement (single: one group; batch: AND over the
    /// groups in point-label order on one sponge).  "" when the scheme / statement has no reference.
    pub fn reference(&self, st: &Stmt<A>, sp: &mut LogSponge<A::F>) -> String {
        let enc = |o: Option<bool>| match o {
            Some(true) => "accept".to_string(),
            Some(false) => "reject".to_string(),
            None => String::new(),
        };
        match st {
            Stmt::Open { comms, point, values, proof, .. } => {
                let cs: Vec<&LabeledCommitment<Comm<A>>> = comms.iter().collect();
                match guarded_plain(|| A::reference_check(&self.vk, &cs, point, values, proof, sp)) {
                    Out::Ok(o) => enc(o),
                    _ => "reject".into(),
                }
            }
            Stmt::Batch { comms, qs, evals, proof } => {
                let cmap: BTreeMap<&String, &LabeledCommitment<Comm<A>>> = comms.iter().map(|c| (c.label(), c)).collect();
                let mut groups: BTreeMap<(&String, &A::Pt), (&A::Pt, BTreeSet<&String>)> = BTreeMap::new();
                for (l, (pl, pt)) in qs.iter() {
                    groups.entry((pl, pt)).or_insert((pt, BTreeSet::new())).1.insert(l);
                }
                if groups.len() != proof.len() {
                    return "reject".into();
                }
                let mut all = true;
                for ((_pl, (pt, labels)), pr) in groups.into_iter().zip(proof.iter()) {
                    let mut cs = vec![];
                    let mut vs = vec![];
                    for l in labels {
                        match (cmap.get(l), evals.get(&(l.clone(), pt.clone()))) {
                            (Some(c), Some(v)) => {
                                cs.push(*c);
                                vs.push(*v);
                            }
                            _ => return "reject".into(),
                        }
                    }
                    match guarded_plain(|| A::reference_check(&self.vk, &cs, pt, &vs, pr, sp)) {
                        Out::Ok(Some(b)) => all &= b,
                        Out::Ok(None) => return String::new(),
                        _ => return "reject".into(),
                    }
                }
                enc(Some(all))
            }
            _ => String::new(),
        }
    }
}

pub enum ProofObj<A: Adapter> {
    Single(Proof<A>),
    Batch(Vec<Proof<A>>, Option<Vec<A::F>>),
}

impl<A: Adapter> Clone for ProofObj<A> {
    fn clone(&self) -> Self {
        match self {
            ProofObj::Single(p) => ProofObj::Single(p.clone()),
            ProofObj::Batch(p, e) => ProofObj::Batch(p.clone(), e.clone()),
        }
    }
}

impl<T> Out<T> {
    pub fn map_ok<U>(self, f: impl FnOnce(T) -> U) -> Out<U> {
        match self {
            Out::Ok(t) => Out::Ok(f(t)),
            Out::Err(e) => Out::Err(e),
            Out::Panic(e) => Out::Panic(e),
        }
    }
}

pub fn decision(o: &Out<bool>) -> &'static str {
    match o {
        Out::Ok(true) => "accept",
        Out::Ok(false) => "reject",
        Out::Err(_) => "err",
        Out::Panic(_) => "panic",
    }
}

fn delta<F: Field>(beh: &Beh, pat: &str) -> F {
    // "plus"/"minus" share one magnitude so that plus+minus cancels exactly; "plus2" is independent
    let mut r = rng_for("delta", hash_str(&beh.id));
    let a: F = loop {
        let x = F::rand(&mut r);
        if !x.is_zero() {
            break x;
        }
    };
    let b: F = loop {
        let x = F::rand(&mut r);
        if !x.is_zero() && x != a {
            break x;
        }
    };
    match pat {
        "minus" => -a,
        "plus2" => b,
        _ => a,
    }
}

fn same_bytes<T: CanonicalSerialize>(a: &T, b: &T) -> bool {
    let (mut x, mut y) = (vec![], vec![]);
    a.serialize_compressed(&mut x).is_ok() && b.serialize_compressed(&mut y).is_ok() && x == y
}

/// Apply one adversary move to the statement of op `adv.op`; false = not applicable.
pub fn apply_adv<A: Adapter>(
    s: &Sess<A>,
    op: &Op,
    opidx: usize,
    st: &mut Stmt<A>,
    sp_before: &LogSponge<A::F>,
    sp_v: &mut LogSponge<A::F>,
    adv: &Adv,
) -> bool {
    let beh = s.beh;
    let mut rng = rng_for("adv", hash_str(&beh.id) ^ hash_str(&adv.kind));
    match adv.kind.as_str() {
        "none" => true,
        // ---- C17: labels / evaluations the verifier looks up in vain ----
        "missing_eval" => match st {
            Stmt::Batch { evals, .. } => evals.remove(&(plabel(adv.l), A::make_point(adv.pt, beh))).is_some(),
            Stmt::Lc { evals, .. } => evals.remove(&(elabel(adv.l), A::make_point(adv.pt, beh))).is_some(),
            _ => false,
        },
        "unknown_query" => match st {
            Stmt::Batch { qs, evals, .. } => {
                let point = A::make_point(adv.pt, beh);
                qs.insert((plabel(adv.l), (qlabel(adv.pl), point.clone())));
                evals.insert((plabel(adv.l), point), A::F::rand(&mut rng));
                true
            }
            _ => false,
        },
        "drop_commitment" => match st {
            Stmt::Batch { comms, .. } => {
                let n = comms.len();
                comms.retain(|c| c.label() != &plabel(adv.l));
                comms.len() < n
            }
            _ => false,
        },
        // ---- cross-proof compensation under the hypothesis that the batching randomizers are predictable:
        // r_1 = 1 and r_2 = the next 128-bit squeeze after the opening challenges (index d).  A false value
        // (+delta on the claim whose opening challenge is squeeze k) in the first group, the witnesses of the first two
        // proofs shifted by e_1 g and e_2 g with  e_1 = xi delta / (z_1 - z_2),  e_2 = - r_1 e_1 / r_2.
        // With randomizers from the verifier's own RNG the shifted proofs are simply wrong.
        "compensate" => match st {
            Stmt::Batch { qs, evals, proof, .. } => {
                use ark_crypto_primitives::sponge::CryptographicSponge;
                let mut groups: BTreeMap<&String, &A::Pt> = BTreeMap::new();
                for (_l, (pl, pt)) in qs.iter() {
                    groups.entry(pl).or_insert(pt);
                }
                let pts: Vec<&A::Pt> = groups.values().cloned().collect();
                if pts.len() < 2 || proof.len() < 2 {
                    return false;
                }
                let (z1, z2) = match (A::point_coord0(pts[0]), A::point_coord0(pts[1])) {
                    (Some(a), Some(b)) if a != b => (a, b),
                    _ => return false,
                };
                let mut sp = sp_v.fork_log();
                let n = adv.k.max(adv.d).max(1) as usize;
                let ch: Vec<A::F> = (0..n)
                    .map(|_| sp.squeeze_field_elements_with_sizes::<A::F>(&[ark_poly_commit::CHALLENGE_SIZE])[0])
                    .collect();
                let (xi, r2) = (ch[adv.k as usize - 1], if adv.d > 0 { ch[adv.d as usize - 1] } else { A::F::one() });
                let d: A::F = delta(beh, "plus");
                let key = (plabel(adv.l), A::make_point(adv.pt, beh));
                if r2.is_zero() || !evals.contains_key(&key) {
                    return false;
                }
                *evals.get_mut(&key).unwrap() += d;
                let e1 = xi * d * (z1 - z2).inverse().unwrap();
                let e2 = -e1 * r2.inverse().unwrap();
                let (a, b) = proof.split_at_mut(1);
                A::shift_witness(&s.vk, &mut a[0], e1) && A::shift_witness(&s.vk, &mut b[0], e2)
            }
            _ => false,
        },
        // ---- two errors weighted with the opening challenges of their positions (squeeze indices k, d) ----
        "value_weighted" => match st {
            Stmt::Batch { evals, .. } => {
                use ark_crypto_primitives::sponge::CryptographicSponge;
                let mut sp = sp_v.fork_log();
                let n = adv.k.max(adv.d).max(1) as usize;
                let ch: Vec<A::F> = (0..n)
                    .map(|_| sp.squeeze_field_elements_with_sizes::<A::F>(&[ark_poly_commit::CHALLENGE_SIZE])[0])
                    .collect();
                let (xa, xb) = (ch[adv.k as usize - 1], ch[adv.d as usize - 1]);
                let e: A::F = delta(beh, "plus");
                let ka = (plabel(adv.l), A::make_point(adv.pt, beh));
                let kb = (plabel(adv.l2), A::make_point(adv.pt2, beh));
                if xb.is_zero() || !evals.contains_key(&ka) || !evals.contains_key(&kb) {
                    false
                } else {
                    *evals.get_mut(&ka).unwrap() += e;
                    *evals.get_mut(&kb).unwrap() -= e * xa * xb.inverse().unwrap();
                    true
                }
            }
            _ => false,
        },
        // ---- statement: claimed value ----
        "value" => {
            let d: A::F = delta(beh, &adv.pat);
            match st {
                Stmt::Open { labels, values, .. } => {
                    match labels.iter().position(|l| *l == adv.l) {
                        Some(i) => {
                            values[i] += d;
                            true
                        }
                        None => false,
                    }
                }
                Stmt::Batch { evals, .. } => {
                    let key = (plabel(adv.l), A::make_point(adv.pt, beh));
                    match evals.get_mut(&key) {
                        Some(v) => {
                            *v += d;
                            true
                        }
                        None => false,
                    }
                }
                Stmt::Lc { evals, .. } => {
                    let key = (elabel(adv.l), A::make_point(adv.pt, beh));
                    match evals.get_mut(&key) {
                        Some(v) => {
                            *v += d;
                            true
                        }
                        None => false,
                    }
                }
            }
        }
        // ---- statement: point (claimed values stay those of the opened point) ----
        "point" => {
            let newp = A::make_point(adv.pt2, beh);
            match st {
                Stmt::Open { point, .. } => {
                    *point = newp;
                    true
                }
                Stmt::Batch { qs, evals, .. } | Stmt::Lc { qs, evals, .. } => {
                    let plab = qlabel(adv.pl);
                    let old: Vec<_> = qs.iter().filter(|(_, (pl, _))| *pl == plab).cloned().collect();
                    if old.is_empty() {
                        return false;
                    }
                    for e in old {
                        qs.remove(&e);
                        let (l, (pl, oldp)) = e;
                        if let Some(v) = evals.get(&(l.clone(), oldp.clone())).cloned() {
                            evals.insert((l.clone(), newp.clone()), v);
                        }
                        qs.insert((l, (pl, newp.clone())));
                    }
                    true
                }
            }
        }
        // ---- one query moved to another point under its old point label (which then names two points); the
        // evaluation claimed at the new point is the true one ("true") or off by delta ("plus") ----
        "repoint_query" => match st {
            Stmt::Batch { qs, evals, .. } => {
                let (lab, plab) = (plabel(adv.l), qlabel(adv.pl));
                let old: Vec<_> = qs.iter().filter(|(l, (pl, _))| *l == lab && *pl == plab).cloned().collect();
                if old.len() != 1 || !s.polys.contains_key(&adv.l) {
                    return false;
                }
                let newp = A::make_point(adv.pt2, beh);
                if old[0].1 .1 == newp {
                    return false;
                }
                qs.remove(&old[0]);
                qs.insert((lab.clone(), (plab, newp.clone())));
                let tv = s.polys[&adv.l].evaluate(&newp);
                let d: A::F = delta(beh, "plus");
                evals.insert((lab, newp), if adv.pat == "plus" { tv + d } else { tv });
                true
            }
            _ => false,
        },
        // ---- statement: commitment to another polynomial under the same label ----
        "comm_swap" => {
            let spec = match beh.polys.iter().find(|p| p.l == adv.l) {
                Some(s) => s,
                None => return false,
            };
            let q = labeled_poly::<A>(spec, beh, 77);
            if q.polynomial().degree() == s.polys[&adv.l].polynomial().degree()
                && s.claims_equal_poly(&q, adv.l)
            {
                return false;
            }
            let mut crng = LogRng::new(s.bseed ^ 0xc0ffee);
            let r = guarded(|| {
                PCx::<A>::commit(
                    &s.ck,
                    std::iter::once(&q),
                    if beh.rng {
                        Some(&mut crng as &mut dyn RngCore)
                    } else {
                        None
                    },
                )
            });
            let newc = match r {
                Out::Ok((c, _)) => c[0].clone(),
                _ => return false,
            };
            replace_comm::<A>(st, adv.l, |_old| Some(newc.clone()))
        }
        "relabel_bound" => replace_comm::<A>(st, adv.l, |old| {
            Some(LabeledCommitment::new(
                old.label().clone(),
                old.commitment().clone(),
                opt(adv.d),
            ))
        }),
        "drop_shifted" | "random_comm" | "random_shifted" => {
            let kind = adv.kind.clone();
            replace_comm::<A>(st, adv.l, |old| {
                let mut r = rng_for("commvar", hash_str(&beh.id));
                let keep_bound = if kind == "drop_shifted" { None } else { old.degree_bound() };
                A::comm_variant(&kind, old.commitment(), None, &mut r)
                    .map(|c| LabeledCommitment::new(old.label().clone(), c, keep_bound))
            })
        }
        "drop_shifted_keep_label" => replace_comm::<A>(st, adv.l, |old| {
            let mut r = rng_for("commvar", hash_str(&beh.id));
            A::comm_variant("drop_shifted", old.commitment(), None, &mut r)
                .map(|c| LabeledCommitment::new(old.label().clone(), c, old.degree_bound()))
        }),
        "foreign_shifted" => {
            let other = match s.comms.get(&adv.l2) {
                Some(c) => c.commitment().clone(),
                None => return false,
            };
            replace_comm::<A>(st, adv.l, |old| {
                let mut r = rng_for("commvar", hash_str(&beh.id));
                A::comm_variant("foreign_shifted", old.commitment(), Some(&other), &mut r)
                    .map(|c| LabeledCommitment::new(old.label().clone(), c, old.degree_bound()))
            })
        }
        // ---- proof: computed by the library's prover from something else ----
        "proof_other_poly" => {
            // prover run on (q, state_q) against commitment(p_l)
            let spec = match beh.polys.iter().find(|p| p.l == adv.l) {
                Some(s) => s,
                None => return false,
            };
            let q = labeled_poly::<A>(spec, beh, 78);
            let mut crng = LogRng::new(s.bseed ^ 0xbeef);
            let r = guarded(|| {
                PCx::<A>::commit(
                    &s.ck,
                    std::iter::once(&q),
                    if beh.rng {
                        Some(&mut crng as &mut dyn RngCore)
                    } else {
                        None
                    },
                )
            });
            let stq = match r {
                Out::Ok((_, mut sts)) => sts.remove(0),
                _ => return false,
            };
            let mut rep = BTreeMap::new();
            rep.insert(adv.l, (q, stq));
            let mut sp = sp_before.fork_log();
            match s.prove(op, &mut sp, &rep, None, opidx) {
                Out::Ok(p) => set_proof::<A>(st, p),
                _ => false,
            }
        }
        "replay_other_point" => {
            // honest proof for the same polynomials at another point, shown for the stated point
            let mut sp = sp_before.fork_log();
            let ov = match op.kind.as_str() {
                "open" => Some((0, adv.pt2)),
                _ => Some((adv.pl, adv.pt2)),
            };
            match s.prove(op, &mut sp, &BTreeMap::new(), ov, opidx) {
                Out::Ok(p) => set_proof::<A>(st, p),
                _ => false,
            }
        }
        // ---- proof list shape (batch / lc) ----
        "list_empty" | "list_trunc" | "list_extend" | "list_swap" | "list_dup" | "list_rot" => {
            let f = |v: &mut Vec<Proof<A>>| -> bool {
                match adv.kind.as_str() {
                    "list_empty" => {
                        if v.is_empty() {
                            return false;
                        }
                        v.clear();
                        true
                    }
                    "list_trunc" => {
                        if v.is_empty() {
                            return false;
                        }
                        v.pop();
                        true
                    }
                    "list_extend" => match v.last().cloned() {
                        Some(l) => {
                            v.push(l);
                            true
                        }
                        None => false,
                    },
                    "list_swap" => {
                        // (two byte-identical proofs: the move would change nothing)
                        if v.len() < 2 || same_bytes(&v[0], &v[1]) {
                            return false;
                        }
                        v.swap(0, 1);
                        true
                    }
                    "list_rot" => {
                        if v.len() < 2 {
                            return false;
                        }
                        v.rotate_left(1);
                        true
                    }
                    _ => {
                        if v.len() < 2 || same_bytes(&v[0], &v[1]) {
                            return false;
                        }
                        v[1] = v[0].clone();
                        true
                    }
                }
            };
            match st {
                Stmt::Batch { proof, .. } | Stmt::Lc { proof, .. } => f(proof),
                _ => false,
            }
        }
        // ---- claimed value of another polynomial / of another point (false for this statement) ----
        "value_other" | "value_at" => {
            let newv = if adv.kind == "value_other" {
                let spec = match beh.polys.iter().find(|p| p.l == adv.l) {
                    Some(s) => s,
                    None => return false,
                };
                labeled_poly::<A>(spec, beh, 78).evaluate(&A::make_point(adv.pt, beh))
            } else {
                match s.polys.get(&adv.l) {
                    Some(p) => p.evaluate(&A::make_point(adv.pt2, beh)),
                    None => return false,
                }
            };
            match st {
                Stmt::Open { labels, values, .. } => match labels.iter().position(|l| *l == adv.l) {
                    Some(i) => {
                        values[i] = newv;
                        true
                    }
                    None => false,
                },
                Stmt::Batch { evals, .. } => {
                    let key = (plabel(adv.l), A::make_point(adv.pt, beh));
                    match evals.get_mut(&key) {
                        Some(v) => {
                            *v = newv;
                            true
                        }
                        None => false,
                    }
                }
                _ => false,
            }
        }
        // ---- PST13: point and witness list extended by one entry, the extra witness solved for a false value ----
        "proof_mut" if adv.comp == "wlen_forged" => match st {
            Stmt::Open { point, values, proof, .. } => {
                use ark_crypto_primitives::sponge::CryptographicSponge;
                if values.is_empty() {
                    return false;
                }
                let mut sp = sp_v.fork_log();
                let xi = sp.squeeze_field_elements_with_sizes::<A::F>(&[ark_poly_commit::CHALLENGE_SIZE])[0];
                let d: A::F = delta(beh, "plus");
                values[0] += d;
                let t = if adv.k == 0 { xi * d } else { -(xi * d) };
                A::extra_witness(&s.vk, point, proof, t)
            }
            _ => false,
        },
        // ---- IPA: a proof with one round more for a false value of the first polynomial of the first group ----
        "proof_mut" if adv.comp == "forge_extra_round" => {
            let mut frng = rng_for("forge_extra_round", s.bseed);
            match st {
                Stmt::Open { comms, labels, point, values, proof } => {
                    let ps: Vec<&LabeledPolynomial<A::F, A::P>> = match labels.iter().map(|l| s.polys.get(l)).collect::<Option<Vec<_>>>() {
                        Some(v) => v,
                        None => return false,
                    };
                    let sts: Vec<&CState<A>> = match labels.iter().map(|l| s.states.get(l)).collect::<Option<Vec<_>>>() {
                        Some(v) => v,
                        None => return false,
                    };
                    let cs: Vec<&LabeledCommitment<Comm<A>>> = comms.iter().collect();
                    if cs.len() != ps.len() || values.is_empty() {
                        return false;
                    }
                    let mut sp = sp_v.fork_log();
                    match A::forge_extra_round(&s.ck, &ps, &cs, point, &mut sp, &sts, &mut frng) {
                        Some((p, v)) => {
                            *proof = p;
                            values[0] = v;
                            true
                        }
                        None => false,
                    }
                }
                Stmt::Batch { comms, qs, evals, proof } => {
                    let mut groups: BTreeMap<(&String, &A::Pt), (&A::Pt, BTreeSet<&String>)> = BTreeMap::new();
                    for (l, (pl, pt)) in qs.iter() {
                        groups.entry((pl, pt)).or_insert((pt, BTreeSet::new())).1.insert(l);
                    }
                    let (pt, labels) = match groups.into_iter().next() {
                        Some((_, (pt, ls))) => (pt.clone(), ls.into_iter().cloned().collect::<Vec<String>>()),
                        None => return false,
                    };
                    if proof.is_empty() {
                        return false;
                    }
                    let ids: Vec<i64> = labels.iter().map(|l| l[1..].parse().unwrap_or(0)).collect();
                    let ps: Vec<&LabeledPolynomial<A::F, A::P>> = match ids.iter().map(|l| s.polys.get(l)).collect::<Option<Vec<_>>>() {
                        Some(v) => v,
                        None => return false,
                    };
                    let sts: Vec<&CState<A>> = match ids.iter().map(|l| s.states.get(l)).collect::<Option<Vec<_>>>() {
                        Some(v) => v,
                        None => return false,
                    };
                    let cs: Vec<&LabeledCommitment<Comm<A>>> = match labels.iter().map(|l| comms.iter().find(|c| c.label() == l)).collect::<Option<Vec<_>>>() {
                        Some(v) => v,
                        None => return false,
                    };
                    let mut sp = sp_v.fork_log();
                    match A::forge_extra_round(&s.ck, &ps, &cs, &pt, &mut sp, &sts, &mut frng) {
                        Some((p, v)) => {
                            proof[0] = p;
                            evals.insert((labels[0].clone(), pt), v);
                            true
                        }
                        None => false,
                    }
                }
                _ => false,
            }
        }
        // ---- crafted proof for one group of the statement AS SHOWN (IPA: final key solved for the succinct check) ----
        "proof_mut" if adv.comp == "forge_ipa_key" => {
            let g = adv.l as usize;
            match st {
                Stmt::Open { comms, point, values, proof, .. } => {
                    let cs: Vec<&LabeledCommitment<Comm<A>>> = comms.iter().collect();
                    let mut sp = sp_v.fork_log();
                    match guarded_plain(|| A::forge_group(&adv.comp, &s.vk, &cs, point, values, proof, &mut sp)) {
                        Out::Ok(Some(p)) => {
                            *proof = p;
                            true
                        }
                        _ => false,
                    }
                }
                Stmt::Batch { comms, qs, evals, proof } => {
                    let cmap: BTreeMap<&String, &LabeledCommitment<Comm<A>>> = comms.iter().map(|c| (c.label(), c)).collect();
                    let mut groups: BTreeMap<(&String, &A::Pt), (&A::Pt, BTreeSet<&String>)> = BTreeMap::new();
                    for (l, (pl, pt)) in qs.iter() {
                        groups.entry((pl, pt)).or_insert((pt, BTreeSet::new())).1.insert(l);
                    }
                    if groups.len() != proof.len() || g >= proof.len() {
                        return false;
                    }
                    let mut sp = sp_v.fork_log();
                    let mut forged = None;
                    for (gi, (_pl, (pt, labels))) in groups.into_iter().enumerate() {
                        let mut cs = vec![];
                        let mut vs = vec![];
                        for l in labels {
                            match (cmap.get(l), evals.get(&(l.clone(), pt.clone()))) {
                                (Some(c), Some(v)) => {
                                    cs.push(*c);
                                    vs.push(*v);
                                }
                                _ => return false,
                            }
                        }
                        if gi < g {
                            // advance the sponge over the earlier groups exactly as the verifier does
                            let _ = guarded_plain(|| A::reference_check(&s.vk, &cs, pt, &vs, &proof[gi], &mut sp));
                        } else if gi == g {
                            forged = match guarded_plain(|| A::forge_group(&adv.comp, &s.vk, &cs, pt, &vs, &proof[gi], &mut sp)) {
                                Out::Ok(p) => p,
                                _ => None,
                            };
                            break;
                        }
                    }
                    match forged {
                        Some(p) => {
                            proof[g] = p;
                            true
                        }
                        None => false,
                    }
                }
                _ => false,
            }
        }
        // ---- crafted proofs that need the session's context (linear-code forgeries) ----
        "proof_mut" if adv.comp.starts_with("forge_") => {
            // only meaningful for a group with exactly one polynomial (the transcript is re-walked)
            let (label, point) = match (&*st, op.kind.as_str()) {
                (Stmt::Open { labels, point, .. }, _) if labels.len() == 1 => (labels[0], point.clone()),
                (Stmt::Batch { qs, .. }, _) => {
                    let mut groups: BTreeMap<&String, Vec<(&String, &A::Pt)>> = BTreeMap::new();
                    for (l, (pl, pt)) in qs.iter() {
                        groups.entry(pl).or_default().push((l, pt));
                    }
                    let g = match groups.values().next() {
                        Some(g) if g.len() == 1 && adv.l == 0 => g,
                        _ => return false,
                    };
                    let lab: i64 = g[0].0[1..].parse().unwrap_or(0);
                    (lab, g[0].1.clone())
                }
                _ => return false,
            };
            let (comm, state) = match (s.comms.get(&label), s.states.get(&label)) {
                (Some(c), Some(t)) => (c.commitment().clone(), t),
                _ => return false,
            };
            let forged = A::forge(&adv.comp, &s.vk, &comm, state, &point, sp_v, &mut rng);
            let (fp, fv) = match forged {
                Some(x) => x,
                None => return false,
            };
            match st {
                Stmt::Open { proof, values, .. } => {
                    *proof = fp;
                    values[0] = fv;
                    true
                }
                Stmt::Batch { proof, evals, .. } => {
                    if proof.is_empty() {
                        return false;
                    }
                    proof[0] = fp;
                    evals.insert((plabel(label), point), fv);
                    true
                }
                _ => false,
            }
        }
        // ---- single-proof mutations (component replacement, scheme-specific shapes) ----
        "proof_mut" => {
            let idx = adv.l.max(0) as usize;
            match st {
                Stmt::Open { proof, .. } => A::proof_mutation(&adv.comp, adv.k, proof, None, &mut rng),
                Stmt::Batch { proof, .. } | Stmt::Lc { proof, .. } => match proof.get_mut(idx) {
                    Some(p) => A::proof_mutation(&adv.comp, adv.k, p, None, &mut rng),
                    None => false,
                },
            }
        }
        // ---- verifier transcript differs from the prover's ----
        "sponge_perturb" => {
            use ark_crypto_primitives::sponge::CryptographicSponge;
            sp_v.absorb(&vec![1u8, 2, 3]);
            true
        }
        // ---- linear combinations ----
        "lc_coeff" => match st {
            Stmt::Lc { lcs, .. } => {
                match lcs.iter_mut().find(|x| x.label() == &elabel(adv.l)) {
                    Some(lc) => {
                        let i = adv.k.max(0) as usize;
                        if i >= lc.terms.len() {
                            return false;
                        }
                        lc.terms[i].0 += A::F::one();
                        true
                    }
                    None => false,
                }
            }
            _ => false,
        },
        "lc_const" => match st {
            Stmt::Lc { lcs, .. } => match lcs.iter_mut().find(|x| x.label() == &elabel(adv.l)) {
                Some(lc) => {
                    match lc.terms.iter_mut().find(|(_, t)| t.is_one()) {
                        Some(t) => t.0 += A::F::one(),
                        None => lc.terms.push((A::F::one(), LCTerm::One)),
                    }
                    true
                }
                None => false,
            },
            _ => false,
        },
        "lc_evals" => match st {
            // transmitted polynomial evaluations changed (first one += 1)
            Stmt::Lc { lc_evals, .. } => match lc_evals {
                Some(v) if !v.is_empty() => {
                    v[0] += A::F::one();
                    true
                }
                _ => false,
            },
            _ => false,
        },
        "lc_evals_keep_sum" => match st {
            // change two transmitted evaluations of one LC at one point so that the LC value is unchanged
            Stmt::Lc {
                lcs, qs, lc_evals, ..
            } => {
                let lc_evals = match lc_evals {
                    Some(v) => v,
                    None => return false,
                };
                // reconstruct the key order the prover used: BTreeMap<(label, point)> order
                let pqs = ark_poly_commit::verif_api::lc_query_set_to_poly_query_set(lcs.iter(), qs);
                let keys: BTreeSet<(String, A::Pt)> =
                    pqs.iter().map(|(l, (_pl, pt))| (l.clone(), pt.clone())).collect();
                let keys: Vec<_> = keys.into_iter().collect();
                if keys.len() != lc_evals.len() {
                    return false;
                }
                for lc in lcs.iter() {
                    let polyterms: Vec<_> = lc
                        .iter()
                        .filter_map(|(c, t)| match t {
                            LCTerm::PolyLabel(l) if !c.is_zero() => Some((*c, l.clone())),
                            _ => None,
                        })
                        .collect();
                    if polyterms.len() < 2 || polyterms[0].1 == polyterms[1].1 {
                        continue;
                    }
                    for (l, (_pl, pt)) in qs.iter() {
                        if l != lc.label() {
                            continue;
                        }
                        let i0 = keys.iter().position(|k| k.0 == polyterms[0].1 && &k.1 == pt);
                        let i1 = keys.iter().position(|k| k.0 == polyterms[1].1 && &k.1 == pt);
                        if let (Some(i0), Some(i1)) = (i0, i1) {
                            lc_evals[i0] += polyterms[1].0;
                            lc_evals[i1] -= polyterms[0].0;
                            return true;
                        }
                    }
                }
                false
            }
            _ => false,
        },
        _ => false,
    }
}

fn replace_comm<A: Adapter>(
    st: &mut Stmt<A>,
    l: i64,
    f: impl Fn(&LabeledCommitment<Comm<A>>) -> Option<LabeledCommitment<Comm<A>>>,
) -> bool {
    let comms = match st {
        Stmt::Open { comms, .. } | Stmt::Batch { comms, .. } | Stmt::Lc { comms, .. } => comms,
    };
    let lab = plabel(l);
    match comms.iter_mut().find(|c| c.label() == &lab) {
        Some(c) => match f(c) {
            Some(n) => {
                *c = n;
                true
            }
            None => false,
        },
        None => false,
    }
}

fn set_proof<A: Adapter>(st: &mut Stmt<A>, p: ProofObj<A>) -> bool {
    match (st, p) {
        (Stmt::Open { proof, .. }, ProofObj::Single(p)) => {
            *proof = p;
            true
        }
        (Stmt::Batch { proof, .. }, ProofObj::Batch(p, _)) => {
            *proof = p;
            true
        }
        (Stmt::Lc { proof, lc_evals, .. }, ProofObj::Batch(p, e)) => {
            *proof = p;
            *lc_evals = e;
            true
        }
        _ => false,
    }
}

impl<'b, A: Adapter> Sess<'b, A> {
    /// true iff `q` evaluates like polynomial `l` at a few probe points (i.e. is the same polynomial)
    fn claims_equal_poly(&self, q: &LabeledPolynomial<A::F, A::P>, l: i64) -> bool {
        (100..103).all(|i| {
            let pt = A::make_point(i, self.beh);
            q.evaluate(&pt) == self.polys[&l].evaluate(&pt)
        })
    }
}

/// One canonical-serialization round trip with all the laws of C12; returns the deserialized value.
pub fn roundtrip<T: CanonicalSerialize + CanonicalDeserialize>(
    x: &T,
    mode: i64,
    name: &str,
    errs: &mut Vec<String>,
    checks: &mut usize,
) -> Option<T> {
    let compress = if mode >= 2 { Compress::Yes } else { Compress::No };
    let validate = if mode % 2 == 1 { Validate::Yes } else { Validate::No };
    let mut bytes = vec![];
    if x.serialize_with_mode(&mut bytes, compress).is_err() {
        errs.push(format!("{}: serialization failed (mode {})", name, mode));
        return None;
    }
    *checks += 1;
    if x.serialized_size(compress) != bytes.len() {
        errs.push(format!("{}: serialized_size {} but {} bytes written (mode {})", name, x.serialized_size(compress), bytes.len(), mode));
    }
    let y = match guarded(|| T::deserialize_with_mode(&bytes[..], compress, validate)) {
        Out::Ok(y) => y,
        o => {
            errs.push(format!("{}: deserialization of own output failed (mode {}): {}", name, mode, o.detail()));
            return None;
        }
    };
    let mut again = vec![];
    let _ = y.serialize_with_mode(&mut again, compress);
    if again != bytes {
        errs.push(format!("{}: re-serialization differs (mode {})", name, mode));
    }
    // truncated input is an error: every proper prefix (sampled when long)
    let n = bytes.len();
    let step = if n <= 4096 { 1 } else { n / 256 };
    let mut cut = 0;
    while cut < n {
        *checks += 1;
        match guarded(|| T::deserialize_with_mode(&bytes[..cut], compress, validate)) {
            Out::Ok(_) => {
                errs.push(format!("{}: {} of {} bytes deserialize successfully (mode {})", name, cut, n, mode));
                break;
            }
            _ => {}
        }
        cut += step;
    }
    Some(y)
}

/// Execute a behaviour and report the observations.
pub fn run_beh<A: Adapter>(beh: &Beh) -> Obs {
    let mut obs = Obs::default();
    let bseed = subseed("beh", hash_str(&beh.id));
    // setup
    let pp = cached_setup_wf::<A>(beh.max_degree, beh.num_vars, beh.wf);
    obs.setup = pp.class().into();
    let pp = match pp {
        Out::Ok(p) => p,
        o => {
            obs.detail = o.detail();
            return obs;
        }
    };
    let ser_of = |art: &str| -> Vec<i64> { beh.ser.iter().filter(|(a, _)| a == art).map(|(_, m)| *m).collect() };
    let mut ser_errors: Vec<String> = vec![];
    let mut ser_checks = 0usize;
    let mut pp = pp;
    for m in ser_of("pp") {
        if let Some(y) = roundtrip(&pp, m, "universal parameters", &mut ser_errors, &mut ser_checks) {
            pp = y;
        }
    }
    let want_digests = std::env::var("PCV_DIGESTS").is_ok();
    let dig = |x: &dyn Fn(&mut Vec<u8>)| -> String {
        let mut b = vec![];
        x(&mut b);
        sha_full(&b)
    };
    if want_digests {
        obs.digests.push(("pp".into(), dig(&|b| pp.serialize_compressed(b).unwrap())));
    }
    // trim
    let bounds: Option<Vec<usize>> = if beh.nobounds {
        None
    } else {
        Some(beh.bounds.iter().map(|b| *b as usize).collect())
    };
    let tr = guarded(|| {
        PCx::<A>::trim(
            &pp,
            beh.supported.max(0) as usize,
            beh.hiding.max(0) as usize,
            bounds.as_deref(),
        )
    });
    obs.trim = tr.class().into();
    let (mut ck, mut vk) = match tr {
        Out::Ok(k) => k,
        o => {
            obs.detail = o.detail();
            return obs;
        }
    };
    // the verifier's key may come from ANOTHER trim of the same parameters (keys from the same parameters
    // interoperate): same hiding bound and bound list, other supported degree
    if beh.vsupported >= 0 && beh.vsupported != beh.supported {
        match guarded(|| PCx::<A>::trim(&pp, beh.vsupported as usize, beh.hiding.max(0) as usize, bounds.as_deref())) {
            Out::Ok((_, v2)) => vk = v2,
            o => {
                obs.trim = o.class().into();
                obs.detail = format!("second trim (verifier side): {}", o.detail());
                return obs;
            }
        }
    }
    if want_digests {
        obs.digests.push(("ck".into(), dig(&|b| ck.serialize_compressed(b).unwrap())));
        obs.digests.push(("vk".into(), dig(&|b| vk.serialize_compressed(b).unwrap())));
    }
    for m in ser_of("ck") {
        if let Some(y) = roundtrip(&ck, m, "committer key", &mut ser_errors, &mut ser_checks) {
            ck = y;
        }
    }
    for m in ser_of("vk") {
        if let Some(y) = roundtrip(&vk, m, "verifier key", &mut ser_errors, &mut ser_checks) {
            vk = y;
        }
    }
    // commit
    let lps: Vec<LabeledPolynomial<A::F, A::P>> = beh
        .polys
        .iter()
        .map(|s| labeled_poly::<A>(s, beh, 0))
        .collect();
    let mut crng = LogRng::new(bseed ^ 0xc0);
    let cm = guarded(|| {
        PCx::<A>::commit(
            &ck,
            lps.iter(),
            if beh.rng {
                Some(&mut crng as &mut dyn RngCore)
            } else {
                None
            },
        )
    });
    obs.commit = cm.class().into();
    let (mut comms, mut states) = match cm {
        Out::Ok(c) => c,
        o => {
            obs.detail = o.detail();
            return obs;
        }
    };
    if want_digests {
        obs.digests.push(("comms".into(), dig(&|b| for c in comms.iter() { c.commitment().serialize_compressed(&mut *b).unwrap(); })));
        obs.digests.push(("states".into(), dig(&|b| for s in states.iter() { s.serialize_compressed(&mut *b).unwrap(); })));
    }
    for m in ser_of("comm") {
        for c in comms.iter_mut() {
            if let Some(y) = roundtrip(c.commitment(), m, "commitment", &mut ser_errors, &mut ser_checks) {
                *c = LabeledCommitment::new(c.label().clone(), y, c.degree_bound());
            }
        }
    }
    for m in ser_of("state") {
        for st in states.iter_mut() {
            if let Some(y) = roundtrip(&*st, m, "commitment state", &mut ser_errors, &mut ser_checks) {
                *st = y;
            }
        }
    }
    if comms.len() != lps.len() || states.len() != lps.len() {
        obs.commit = "err".into();
        obs.detail = "harness: commit returned a different number of commitments".into();
        return obs;
    }
    let order: Vec<i64> = beh.polys.iter().map(|p| p.l).collect();
    let mut sess = Sess::<A> {
        beh,
        ck,
        vk,
        order: order.clone(),
        polys: order.iter().cloned().zip(lps.into_iter()).collect(),
        comms: order.iter().cloned().zip(comms.into_iter()).collect(),
        states: order.iter().cloned().zip(states.into_iter()).collect(),
        sp_p: LogSponge::fresh(),
        sp_v: LogSponge::fresh(),
        bseed,
    };
    // pre-seed both sponges identically
    {
        use ark_crypto_primitives::sponge::CryptographicSponge;
        let pre = vec![(bseed & 0xff) as u8, 42u8];
        sess.sp_p.absorb(&pre);
        sess.sp_v.absorb(&pre);
    }
    // prover side of every op first (so that proofs can be moved between ops), then verifier side
    let mut stmts: Vec<Option<Stmt<A>>> = vec![];
    let mut sp_befores = vec![];
    let mut sp_after_p: Vec<String> = vec![];
    for (i, op) in beh.ops.iter().enumerate() {
        let mut o = OpObs::default();
        let before = sess.sp_p.fork_log();
        let mut sp = sess.sp_p.fork_log();
        let mut redeclared = BTreeMap::new();
        if op.obound.len() == 2 {
            if let (Some(lp), Some(st)) = (sess.polys.get(&op.obound[0]), sess.states.get(&op.obound[0])) {
                let q = LabeledPolynomial::new(lp.label().clone(), lp.polynomial().clone(), opt(op.obound[1]), lp.hiding_bound());
                redeclared.insert(op.obound[0], (q, st.clone()));
            }
        }
        let pr = sess.prove(op, &mut sp, &redeclared, None, i);
        o.sp_shape_p = sponge_shape(&sp.take_log());
        o.open = pr.class().into();
        o.open_detail = pr.detail();
        match pr {
            Out::Ok(mut p) => {
                sess.sp_p = sp;
                if want_digests {
                    let d = match &p {
                        ProofObj::Single(x) => dig(&|b| x.serialize_compressed(b).unwrap()),
                        ProofObj::Batch(v, e) => dig(&|b| {
                            let bp: BProof<A> = v.clone().into();
                            bp.serialize_compressed(&mut *b).unwrap();
                            e.serialize_compressed(&mut *b).unwrap();
                        }),
                    };
                    obs.digests.push((format!("proof{}", i + 1), d));
                }
                for m in ser_of("proof") {
                    p = match p {
                        ProofObj::Single(x) => ProofObj::Single(roundtrip(&x, m, "proof", &mut ser_errors, &mut ser_checks).unwrap_or(x)),
                        ProofObj::Batch(v, e) => {
                            if op.kind == "lc" {
                                let bl = BatchLCProof::<A::F, BProof<A>> { proof: v.clone().into(), evals: e.clone() };
                                match roundtrip(&bl, m, "combination proof", &mut ser_errors, &mut ser_checks) {
                                    Some(y) => ProofObj::Batch(y.proof.into(), y.evals),
                                    None => ProofObj::Batch(v, e),
                                }
                            } else {
                                let bp: BProof<A> = v.clone().into();
                                match roundtrip(&bp, m, "batch proof", &mut ser_errors, &mut ser_checks) {
                                    Some(y) => ProofObj::Batch(y.into(), e),
                                    None => ProofObj::Batch(v, e),
                                }
                            }
                        }
                    };
                }
                stmts.push(Some(sess.statement(op, p)));
            }
            _ => {
                // a refused open leaves the prover sponge in whatever state the call left it
                sess.sp_p = sp;
                stmts.push(None);
            }
        }
        sp_befores.push(before);
        sp_after_p.push(sess.sp_p.state_digest());
        obs.ops.push(o);
    }
    // cross-op adversary move: swap the proofs of two ops
    for adv in beh.adv.iter().filter(|a| a.kind == "swap_ops") {
        let (i, j) = ((adv.op - 1) as usize, (adv.k - 1) as usize);
        if i < stmts.len() && j < stmts.len() && i != j {
            let (a, b) = if i < j {
                let (x, y) = stmts.split_at_mut(j);
                (&mut x[i], &mut y[0])
            } else {
                let (x, y) = stmts.split_at_mut(i);
                (&mut y[0], &mut x[j])
            };
            let ok = match (a, b) {
                (Some(Stmt::Open { proof: p1, .. }), Some(Stmt::Open { proof: p2, .. })) => {
                    std::mem::swap(p1, p2);
                    true
                }
                (Some(Stmt::Batch { proof: p1, .. }), Some(Stmt::Batch { proof: p2, .. })) => {
                    std::mem::swap(p1, p2);
                    true
                }
                _ => false,
            };
            if !ok {
                obs.skipped_adv.push("swap_ops".into());
            }
        } else {
            obs.skipped_adv.push("swap_ops".into());
        }
    }
    for adv in beh.adv.iter().filter(|a| a.kind == "vk_mut") {
        let mut r = rng_for("vkmut", hash_str(&beh.id));
        match A::vk_variant(&adv.comp, &sess.vk, &mut r) {
            Some(v) => sess.vk = v,
            None => obs.skipped_adv.push(format!("vk_mut:{}", adv.comp)),
        }
    }
    for (i, op) in beh.ops.iter().enumerate() {
        let st = stmts[i].take();
        let mut st = match st {
            Some(s) => s,
            None => {
                obs.ops[i].check = "skipped".into();
                continue;
            }
        };
        let mut sp_v = sess.sp_v.clone();
        for adv in beh.adv.iter().filter(|a| a.op as usize == i + 1 && a.kind != "swap_ops" && a.kind != "vk_mut") {
            let ok = apply_adv::<A>(&sess, op, i, &mut st, &sp_befores[i], &mut sp_v, adv);
            if !ok {
                obs.skipped_adv.push(adv.kind.clone());
            }
        }
        obs.ops[i].claims_true = if sess.claims_true(&st) { "true" } else { "false" }.into();
        obs.ops[i].n_proofs = match &st {
            Stmt::Open { .. } => 1,
            Stmt::Batch { proof, .. } | Stmt::Lc { proof, .. } => proof.len(),
        };
        if beh.prop == "C10" {
            let mut spr = sp_v.fork_log();
            obs.ops[i].reference = sess.reference(&st, &mut spr);
            if std::env::var("PCV_DEBUG").is_ok() {
                eprintln!("reference log: {:?}", spr.take_log().iter().map(|e| format!("{}:{}:{}", e.k, e.n, e.d)).collect::<Vec<_>>());
                let mut spl = sp_v.fork_log();
                let _ = sess.verify(&st, &mut spl, 11);
                eprintln!("library   log: {:?}", spl.take_log().iter().map(|e| format!("{}:{}:{}", e.k, e.n, e.d)).collect::<Vec<_>>());
            }
        }
        let mut sp1 = sp_v.fork_log();
        let r1 = sess.verify(&st, &mut sp1, 11);
        obs.ops[i].sp_shape_v = sponge_shape(&sp1.take_log());
        obs.ops[i].check = decision(&r1).into();
        obs.ops[i].check_detail = r1.detail();
        if !matches!(st, Stmt::Open { .. }) {
            let mut sp2 = sp_v.clone();
            let r2 = sess.verify(&st, &mut sp2, 1213);
            obs.ops[i].check2 = decision(&r2).into();
        }
        if let Stmt::Batch { .. } = st {
            let mut sp3 = sp_v.clone();
            if let Some(r) = sess.singles(&st, &mut sp3) {
                obs.ops[i].singles = decision(&r).into();
            }
        }
        sess.sp_v = sp1;
        obs.ops[i].lockstep = sess.sp_v.state_digest() == sp_after_p[i];
        let _ = op;
    }
    if want_digests {
        let decs: Vec<String> = obs.ops.iter().map(|o| o.check.clone()).collect();
        obs.digests.push(("decisions".into(), sha_full(decs.join(",").as_bytes())));
    }
    obs.ser_errors = ser_errors;
    obs.ser_checks = ser_checks;
    obs
}
