//! Compare observations with the specification's expectations.
//! Only property observables produce "violation"; implementation-level differences are "drift".
use crate::beh::*;

fn stage(expected: &str, observed: &str) -> Option<String> {
    match expected {
        "ok" if observed != "ok" => Some(format!("expected ok, observed {}", observed)),
        "refuse" if observed == "ok" => Some("expected refusal, observed ok".to_string()),
        _ => None,
    }
}

pub fn judge(b: &Beh, obs: Obs) -> Verdict {
    let mut v = Verdict {
        id: b.id.clone(),
        prop: b.prop.clone(),
        scheme: b.scheme.clone(),
        verdict: "ok".into(),
        why: String::new(),
        obs,
    };
    let e = &b.expect;
    let fail = |v: &mut Verdict, why: String| {
        v.verdict = "violation".into();
        v.why = why;
    };
    // an adversary move the harness could not apply makes the behaviour meaningless
    if !v.obs.skipped_adv.is_empty() {
        v.verdict = "skip".into();
        v.why = format!("adversary move not applicable: {:?}", v.obs.skipped_adv);
        return v;
    }
    if !v.obs.ser_errors.is_empty() {
        let w = v.obs.ser_errors[0].clone();
        fail(&mut v, format!("serialization: {}", w));
        return v;
    }
    for (name, exp, ob) in [
        ("setup", &e.setup, v.obs.setup.clone()),
        ("trim", &e.trim, v.obs.trim.clone()),
        ("commit", &e.commit, v.obs.commit.clone()),
    ] {
        if ob.is_empty() {
            // stage not reached because an earlier one was (legitimately) refused
            return v;
        }
        if let Some(w) = stage(exp, &ob) {
            let d = v.obs.detail.clone();
            let note = if b.note.is_empty() { String::new() } else { format!(" [{}]", b.note) };
            fail(&mut v, format!("{}: {} ({}){}", name, w, d, note));
            return v;
        }
        if ob != "ok" {
            return v;
        }
    }
    for (i, oe) in e.ops.iter().enumerate() {
        let oo = match v.obs.ops.get(i) {
            Some(o) => o.clone(),
            None => break,
        };
        if let Some(w) = stage(&oe.open, &oo.open) {
            fail(&mut v, format!("op{} open: {} ({})", i + 1, w, oo.open_detail));
            return v;
        }
        if oo.open != "ok" {
            continue;
        }
        match oe.check.as_str() {
            "accept" => {
                if oo.check != "accept" {
                    fail(
                        &mut v,
                        format!("op{} check: expected accept, observed {} ({})", i + 1, oo.check, oo.check_detail),
                    );
                    return v;
                }
                if oo.claims_true == "false" && b.prop != "C12" {
                    v.verdict = "drift".into();
                    v.why = format!("op{}: spec says accept but the harness finds a claim false", i + 1);
                    return v;
                }
            }
            "not_accept" => {
                if oo.check == "accept" {
                    fail(
                        &mut v,
                        format!("op{} check: expected not-accept, observed accept (claims_true={})", i + 1, oo.claims_true),
                    );
                    return v;
                }
            }
            // C10: the library decides exactly what the independent reference relation decides
            "ref" => {
                if !oo.reference.is_empty() && ((oo.check == "accept") != (oo.reference == "accept")) {
                    fail(
                        &mut v,
                        format!("op{} check: library {} but the reference relation says {}", i + 1, oo.check, oo.reference),
                    );
                    return v;
                }
                // the reference knowingly omits an atom it cannot evaluate (Hyrax: opening of com_eval);
                // a claimed value that does not influence the decision is still a violation of C10
                if b.tag == "c:value" && oo.check == "accept" && oo.claims_true == "false" {
                    fail(&mut v, format!("op{} check: a replaced claimed value does not influence the decision (accepted)", i + 1));
                    return v;
                }
                if b.adv.is_empty() && oo.reference == "reject" {
                    fail(&mut v, format!("op{}: an honest proof does not satisfy the reference relation", i + 1));
                    return v;
                }
            }
            // a false claim must not be accepted, whatever else happened
            "not_accept_if_false" => {
                if oo.check == "accept" && oo.claims_true == "false" {
                    fail(&mut v, format!("op{} check: false claim accepted", i + 1));
                    return v;
                }
            }
            _ => {}
        }
        if !oo.check2.is_empty() && oo.check2 != oo.check {
            // C05: the decision must not depend on the verifier's randomness
            let both_not_accept = oo.check != "accept" && oo.check2 != "accept";
            if !both_not_accept {
                fail(
                    &mut v,
                    format!("op{} check: decision depends on verifier RNG ({} vs {})", i + 1, oo.check, oo.check2),
                );
                return v;
            }
        }
        if !oo.singles.is_empty() {
            let s_acc = oo.singles == "accept";
            let b_acc = oo.check == "accept";
            if s_acc != b_acc {
                fail(
                    &mut v,
                    format!("op{} batch decision {} differs from AND of single checks {}", i + 1, oo.check, oo.singles),
                );
                return v;
            }
        }
        if oe.lockstep == "yes" && oo.check == "accept" && !oo.lockstep {
            fail(&mut v, format!("op{}: prover and verifier sponges differ after the operation", i + 1));
            return v;
        }
    }
    v
}
