//! Crafted linear-code proofs (attack catalogue of C03): fabricated columns carrying the Merkle
//! paths of the honest leaves, and the "stretched vector" proof whose opening vector has twice
//! the committed row length.  Both walk the verifier's transcript exactly as the library does.
use crate::adapter::{ColH, Fr381, MTConfig};
use crate::common::LogSponge;
use ark_crypto_primitives::merkle_tree::MerkleTree;
use ark_crypto_primitives::sponge::CryptographicSponge;
use ark_ff::{Field, UniformRand, Zero};
use ark_poly::Polynomial;
use ark_poly_commit::linear_codes::{LinCodeParametersInfo, LinearEncode};
use ark_poly_commit::verif_api::linear_codes as lc;
use ark_serialize::CanonicalSerialize;
use rand_chacha::ChaCha20Rng;

type F = Fr381;
pub type LcProof = ark_poly_commit::linear_codes::LinCodePCProof<F, MTConfig>;

fn ip(a: &[F], b: &[F]) -> F {
    a.iter().zip(b).map(|(x, y)| *x * y).sum()
}

fn row_mul(rows: &[Vec<F>], v: &[F]) -> Vec<F> {
    let m = rows[0].len();
    (0..m).map(|c| (0..rows.len()).map(|r| rows[r][c] * v[r]).sum()).collect()
}

/// Returns (forged proof for one polynomial, the value it "proves").
pub fn forge<L, P, C, S>(
    kind: &str,
    vk: &L::LinCodePCParams,
    comm: &C,
    state: &S,
    point: &P::Point,
    sp0: &LogSponge<F>,
    parts: impl Fn(&C) -> (usize, usize, usize, Vec<u8>),
    sparts: impl Fn(&S) -> (Vec<Vec<F>>, Vec<Vec<F>>, Vec<Vec<u8>>),
    rng: &mut ChaCha20Rng,
) -> Option<(LcProof, F)>
where
    P: Polynomial<F>,
    P::Point: Clone,
    L: LinearEncode<F, MTConfig, P, ColH<F>>,
{
    let (n_rows, n_cols, n_ext, root) = parts(comm);
    let (mat_rows, ext_cols, leaves) = sparts(state);
    let t = lc::calculate_t::<F>(vk.sec_param(), vk.distance(), n_ext).ok()?;
    let mut sp = sp0.clone();
    let mut rb = Vec::new();
    root.serialize_compressed(&mut rb).ok()?;
    sp.absorb(&rb);
    let wf_on = vk.check_well_formedness();
    let (a, b) = L::tensor(point, n_cols, n_rows);
    // honest tree over the column hashes (padded to a power of two, as the library does)
    let mut lv: Vec<Vec<u8>> = leaves.clone();
    lv.resize(lv.len().next_power_of_two(), Vec::<u8>::default());
    let tree = MerkleTree::<MTConfig>::new(vk.leaf_hash_param(), vk.two_to_one_hash_param(), &lv).ok()?;
    match kind {
        "forge_stretch" => {
            let stretch = |u: Vec<F>| -> Vec<F> {
                let mut o = Vec::with_capacity(2 * u.len());
                for x in u {
                    o.push(x);
                    o.push(F::zero());
                }
                o
            };
            let wf = if wf_on {
                let r: Vec<F> = sp.squeeze_field_elements(n_rows);
                let w = stretch(row_mul(&mat_rows, &r));
                sp.absorb(&w);
                Some(w)
            } else {
                None
            };
            sp.absorb(&L::point_to_vec(point.clone()));
            let v = stretch(row_mul(&mat_rows, &b));
            sp.absorb(&v);
            let idx = lc::get_indices_from_sponge(n_ext, t, &mut sp).ok()?;
            let cols: Vec<Vec<F>> = idx.iter().map(|j| ext_cols[*j].clone()).collect();
            let paths = idx.iter().map(|j| tree.generate_proof(*j).unwrap()).collect();
            let value = ip(&v, &a);
            Some((lc::proof_from_parts(paths, v, cols, wf), value))
        }
        // the opening vector doubled (claims 2 p(z)), honest paths, and NO columns: every per-column check
        // of the verifier must notice that the column list does not match the t derived indices
        "forge_nocolumns" => {
            let wf = if wf_on {
                let r: Vec<F> = sp.squeeze_field_elements(n_rows);
                let w = row_mul(&mat_rows, &r);
                sp.absorb(&w);
                Some(w)
            } else {
                None
            };
            sp.absorb(&L::point_to_vec(point.clone()));
            let v: Vec<F> = row_mul(&mat_rows, &b).into_iter().map(|x| x + x).collect();
            sp.absorb(&v);
            let idx = lc::get_indices_from_sponge(n_ext, t, &mut sp).ok()?;
            let paths = idx.iter().map(|j| tree.generate_proof(*j).unwrap()).collect();
            let value = ip(&v, &a);
            Some((lc::proof_from_parts(paths, v, vec![], wf), value))
        }
        "forge_columns" => {
            let r: Vec<F> = if wf_on { sp.squeeze_field_elements(n_rows) } else { vec![] };
            let v: Vec<F> = (0..n_cols).map(|_| F::rand(rng)).collect();
            // with a single row the two column constraints must be proportional
            let wfv: Vec<F> = if n_rows >= 2 {
                (0..n_cols).map(|_| F::rand(rng)).collect()
            } else if wf_on {
                let s = r[0] * b[0].inverse()?;
                v.iter().map(|x| *x * s).collect()
            } else {
                vec![]
            };
            if wf_on {
                sp.absorb(&wfv);
            }
            sp.absorb(&L::point_to_vec(point.clone()));
            sp.absorb(&v);
            let idx = lc::get_indices_from_sponge(n_ext, t, &mut sp).ok()?;
            let w = L::encode(&v, vk).ok()?;
            let wwf = if wf_on { L::encode(&wfv, vk).ok()? } else { vec![] };
            let mut cols = Vec::new();
            for j in idx.iter() {
                let mut col = vec![F::zero(); n_rows];
                if n_rows >= 2 && wf_on {
                    // solve b0 x + b1 y = w[j], r0 x + r1 y = wwf[j]
                    let det = b[0] * r[1] - b[1] * r[0];
                    let di = det.inverse()?;
                    col[0] = (w[*j] * r[1] - b[1] * wwf[*j]) * di;
                    col[1] = (b[0] * wwf[*j] - w[*j] * r[0]) * di;
                } else {
                    col[0] = w[*j] * b[0].inverse()?;
                }
                cols.push(col);
            }
            let paths = idx.iter().map(|j| tree.generate_proof(*j).unwrap()).collect();
            let value = ip(&v, &a);
            Some((lc::proof_from_parts(paths, v, cols, if wf_on { Some(wfv) } else { None }), value))
        }
        _ => None,
    }
}
