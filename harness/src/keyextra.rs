//! C08 / C09 for the schemes whose keys are not exponent tables: Hyrax rows, PST13 term map,
//! multilinear PST hypercube tables, linear-code Merkle roots; homomorphism and representation
//! independence of commitments; transparent generators; interoperating trims.
use crate::adapter::*;
use crate::common::*;
use ark_crypto_primitives::crh::CRHScheme;
use ark_crypto_primitives::merkle_tree::MerkleTree;
use ark_ec::{pairing::Pairing, AffineRepr, CurveGroup};
use ark_ff::{One, UniformRand, Zero};
use ark_poly::{DenseMVPolynomial, DenseUVPolynomial, MultilinearExtension, Polynomial};
use ark_poly_commit::linear_codes::{LinCodeParametersInfo, LinearEncode};
use ark_poly_commit::multilinear_pc::MultilinearPC;
use ark_poly_commit::verif_api::linear_codes as lc;
use ark_poly_commit::{LabeledPolynomial, PolynomialCommitment};
use ark_std::rand::RngCore;
use serde_json::{json, Value};

type E = E381;
type F = Fr381;

fn res(what: &str, cases: usize, r: Result<(), String>) -> Value {
    match r {
        Ok(()) => json!({"what": what, "cases": cases, "ok": true, "why": ""}),
        Err(e) => json!({"what": what, "cases": cases, "ok": false, "why": e}),
    }
}

fn hyrax(nvs: &[usize]) -> Value {
    use blake2::Blake2s256;
    use digest::Digest;
    let mut n = 0;
    let r = (|| -> Result<(), String> {
        for &nv in nvs {
            let mut rng = rng_for("c08-hyrax", nv as u64);
            let pp = HyraxPCT::setup(1, Some(nv), &mut rng).map_err(|e| format!("{:?}", e))?;
            let dim = 1usize << (nv / 2);
            if pp.com_key.len() != dim {
                return Err(format!("{} generators for {} variables", pp.com_key.len(), nv));
            }
            // transparent generators: re-derived from the protocol seed, valid, distinct
            let derive = |i: u64| -> GEd {
                let hash = Blake2s256::digest([b"Hyrax protocol".as_ref(), &i.to_le_bytes()].concat().as_slice());
                let mut p = GEd::from_random_bytes(&hash);
                let mut j = 0u64;
                while p.is_none() {
                    let mut bytes = b"Hyrax protocol".to_vec();
                    bytes.extend(i.to_le_bytes());
                    bytes.extend(j.to_le_bytes());
                    p = GEd::from_random_bytes(&Blake2s256::digest(bytes.as_slice()));
                    j += 1;
                }
                p.unwrap().mul_by_cofactor_to_group().into_affine()
            };
            let mut all = pp.com_key.clone();
            all.push(pp.h);
            for (i, g) in all.iter().enumerate() {
                if *g != derive(i as u64) || g.is_zero() {
                    return Err(format!("generator {} is not the specified derivation / is the identity", i));
                }
                for j in 0..i {
                    if all[j] == *g {
                        return Err(format!("generators {} and {} coincide", i, j));
                    }
                }
            }
            let (ck, _vk) = HyraxPCT::trim(&pp, 1, 0, None).map_err(|e| format!("{:?}", e))?;
            for cls in ["full", "zero", "const", "sparse"] {
                let spec = crate::beh::PolySpec { l: 1, cls: cls.into(), deg: 0, lz: 0, bound: -1, hid: -1 };
                let p = ml_poly::<FrEd>(&spec, nv, &mut rng);
                let lp = LabeledPolynomial::new("p".into(), p.clone(), None, None);
                let mut cr = LogRng::new(11);
                let (cm, st) = HyraxPCT::commit(&ck, std::iter::once(&lp), Some(&mut cr as &mut dyn RngCore)).map_err(|e| format!("{:?}", e))?;
                let (rands, rows) = ark_poly_commit::verif_api::hyrax::state_parts(&st[0]);
                let evals = p.to_evaluations();
                let rc = &cm[0].commitment().row_coms;
                if rc.len() != dim || rands.len() != dim || rows.len() != dim {
                    return Err("row count differs from 2^(n/2)".into());
                }
                for r in 0..dim {
                    let mut acc = ck.h.into_group() * rands[r];
                    for c in 0..dim {
                        // column-major: M[r][c] = evals[c * dim + r]
                        if rows[r][c] != evals[c * dim + r] {
                            return Err("state matrix is not the column-major arrangement of the evaluations".into());
                        }
                        acc += ck.com_key[c].into_group() * evals[c * dim + r];
                    }
                    if acc.into_affine() != rc[r] {
                        return Err(format!("row commitment {} is not sum_c M[r][c] G_c + r_r H ({} variables, {})", r, nv, cls));
                    }
                }
                n += 1;
            }
        }
        Ok(())
    })();
    res("hyrax_rows_and_generators", n, r)
}

fn pst13(n_cases: usize) -> Value {
    let mut n = 0;
    let r = (|| -> Result<(), String> {
        for (nv, d) in [(1usize, 3usize), (2, 2), (2, 3), (3, 2)] {
            let mut rng = rng_for("c08-pst", (nv * 10 + d) as u64);
            let pp = Pst13PC::setup(d, Some(nv), &mut rng).map_err(|e| format!("{:?}", e))?;
            let (ck, _) = Pst13PC::trim(&pp, d, 1, None).map_err(|e| format!("{:?}", e))?;
            for case in 0..n_cases {
                let cls = ["full", "mixed", "uni", "zero", "const"][case % 5];
                let spec = crate::beh::PolySpec { l: 1, cls: cls.into(), deg: d as i64, lz: 0, bound: -1, hid: -1 };
                let p = mv_poly::<F>(&spec, nv, &mut rng);
                let q = mv_poly::<F>(&crate::beh::PolySpec { cls: "full".into(), ..spec.clone() }, nv, &mut rng);
                let commit = |x: &MvPoly<F>| -> Result<<E as Pairing>::G1Affine, String> {
                    let lp = LabeledPolynomial::new("p".into(), x.clone(), None, None);
                    let (c, _) = Pst13PC::commit(&ck, std::iter::once(&lp), None).map_err(|e| format!("{:?}", e))?;
                    Ok(c[0].commitment().comm.0)
                };
                let cp = commit(&p)?;
                let mut acc = <E as Pairing>::G1::zero();
                for (c, t) in p.terms() {
                    acc += ck.powers_of_g[t].into_group() * c;
                }
                if acc.into_affine() != cp {
                    return Err(format!("PST13 commitment is not the term-indexed sum ({} vars, degree {}, {})", nv, d, cls));
                }
                if p.is_zero() && !cp.is_zero() {
                    return Err("zero polynomial does not map to the identity".into());
                }
                // representation independence: the same polynomial with its term list reversed, and with one
                // monomial split over two entries (both are valid values of the public `terms` field: the
                // library evaluates, commits to and opens them)
                if p.terms.len() >= 2 {
                    let mut rev = p.clone();
                    rev.terms.reverse();
                    if commit(&rev)? != cp {
                        return Err(format!("PST13 commitment depends on the order of the term list ({} vars, degree {}, {})", nv, d, cls));
                    }
                    let mut split = p.clone();
                    let (c0, t0) = split.terms[0].clone();
                    let half = c0 * ark_ff::Field::inverse(&F::from(2u64)).unwrap();
                    split.terms[0].0 = half;
                    split.terms.push((c0 - half, t0));
                    if commit(&split)? != cp {
                        return Err(format!("PST13 commitment differs when one monomial is split over two terms ({} vars, degree {}, {})", nv, d, cls));
                    }
                }
                let (a, b) = (F::rand(&mut rng), F::rand(&mut rng));
                let mut lin = MvPoly::<F>::zero();
                lin += (a, &p);
                lin += (b, &q);
                if commit(&lin)? != (cp.into_group() * a + commit(&q)?.into_group() * b).into_affine() {
                    return Err("PST13 commitment is not additive".into());
                }
                n += 1;
            }
        }
        Ok(())
    })();
    res("pst13_term_map_and_additivity", n, r)
}

fn mlpst(nvs: &[usize]) -> Value {
    let mut n = 0;
    let r = (|| -> Result<(), String> {
        for &nv in nvs {
            let mut rng = rng_for("c08-mlpst", nv as u64);
            let pp = MultilinearPC::<E>::setup(nv, &mut rng);
            if pp.powers_of_g.len() != nv || pp.powers_of_h.len() != nv || pp.g_mask.len() != nv {
                return Err("table count differs from the number of variables".into());
            }
            for i in 0..nv {
                if pp.powers_of_g[i].len() != 1 << (nv - i) || pp.powers_of_h[i].len() != 1 << (nv - i) {
                    return Err(format!("table {} has the wrong size", i));
                }
                // same exponents in G1 and G2
                for x in 0..pp.powers_of_g[i].len().min(8) {
                    if E::pairing(pp.powers_of_g[i][x], pp.h) != E::pairing(pp.g, pp.powers_of_h[i][x]) {
                        return Err(format!("powers_of_g[{}][{}] and powers_of_h[{}][{}] carry different exponents", i, x, i, x));
                    }
                }
                // table i+1 is table i with its first remaining variable summed out: eq sums to 1
                if i + 1 < nv {
                    for x in 0..pp.powers_of_g[i + 1].len().min(4) {
                        let s = pp.powers_of_g[i][2 * x].into_group() + pp.powers_of_g[i][2 * x + 1];
                        if s.into_affine() != pp.powers_of_g[i + 1][x] {
                            return Err(format!("table {} is not table {} with one variable summed out", i + 1, i));
                        }
                    }
                }
            }
            for sup in 1..=nv {
                let (ck, vk) = MultilinearPC::<E>::trim(&pp, sup);
                if ck.nv != sup || vk.nv != sup || ck.powers_of_g[0] != pp.powers_of_g[nv - sup] || vk.g_mask_random[..] != pp.g_mask[nv - sup..] {
                    return Err(format!("trim({}) is not the suffix of the parameters", sup));
                }
                for cls in ["full", "zero", "const", "sparse"] {
                    let spec = crate::beh::PolySpec { l: 1, cls: cls.into(), deg: 0, lz: 0, bound: -1, hid: -1 };
                    let p = ml_poly::<F>(&spec, sup, &mut rng);
                    let q = ml_poly::<F>(&crate::beh::PolySpec { cls: "full".into(), ..spec.clone() }, sup, &mut rng);
                    let cp = MultilinearPC::<E>::commit(&ck, &p);
                    let mut acc = <E as Pairing>::G1::zero();
                    for (x, e) in p.to_evaluations().iter().enumerate() {
                        acc += ck.powers_of_g[0][x].into_group() * e;
                    }
                    if cp.g_product != acc.into_affine() || cp.nv != sup {
                        return Err(format!("multilinear commitment is not the hypercube sum ({} variables, {})", sup, cls));
                    }
                    let (a, b) = (F::rand(&mut rng), F::rand(&mut rng));
                    let lin = MlPoly::<F>::from_evaluations_vec(sup, p.to_evaluations().iter().zip(q.to_evaluations()).map(|(x, y)| a * x + b * y).collect());
                    let cq = MultilinearPC::<E>::commit(&ck, &q);
                    if MultilinearPC::<E>::commit(&ck, &lin).g_product != (cp.g_product.into_group() * a + cq.g_product.into_group() * b).into_affine() {
                        return Err("multilinear commitment is not additive".into());
                    }
                    // open / check: truth accepted, value + 1 rejected
                    let pt: Vec<F> = (0..sup).map(|_| F::rand(&mut rng)).collect();
                    let v = p.evaluate(&pt);
                    let pr = MultilinearPC::<E>::open(&ck, &p, &pt);
                    if pr.proofs.len() != sup {
                        return Err("proof does not have one element per variable".into());
                    }
                    if !MultilinearPC::<E>::check(&vk, &cp, &pt, v, &pr) {
                        return Err(format!("multilinear check rejects the true evaluation ({} variables, {})", sup, cls));
                    }
                    if MultilinearPC::<E>::check(&vk, &cp, &pt, v + F::one(), &pr) {
                        return Err("multilinear check accepts value + 1".into());
                    }
                    n += 1;
                }
            }
        }
        Ok(())
    })();
    res("mlpst_tables_commit_open", n, r)
}

macro_rules! lincode_root {
    ($fname:ident, $A:ty, $L:ty, $what:expr) => {
        fn $fname(sizes: &[(usize, i64)]) -> Value {
            let mut n = 0;
            let r = (|| -> Result<(), String> {
                for &(size, nv) in sizes {
                    let beh = crate::beh::Beh {
                        id: format!("root-{}-{}", size, nv), prop: "C08".into(), scheme: <$A>::NAME.into(), max_degree: size as i64,
                        num_vars: nv, supported: size as i64, hiding: 0, bounds: vec![], nobounds: true, polys: vec![], rng: false, wf: true, note: String::new(), vsupported: -1,
                        ops: vec![], adv: vec![], expect: Default::default(), ser: vec![], tag: String::new(),
                    };
                    let pp = match crate::session::cached_setup::<$A>(size as i64, nv) {
                        Out::Ok(p) => p,
                        o => return Err(format!("setup: {}", o.detail())),
                    };
                    let (ck, _vk) = <$A as Adapter>::PC::trim(&pp, size, 0, None).map_err(|e| format!("{:?}", e))?;
                    let mut rng = rng_for("c08-root", (size as u64) * 31 + nv as u64);
                    let mut roots = vec![];
                    for cls in ["full", "full", "zero", "const", "sparse"] {
                        let spec = crate::beh::PolySpec { l: 1, cls: cls.into(), deg: size as i64, lz: 0, bound: -1, hid: -1 };
                        let p = <$A>::make_poly(&spec, &beh, &mut rng);
                        let lp = LabeledPolynomial::new("p".into(), p.clone(), None, None);
                        let (cm, _) = <$A as Adapter>::PC::commit(&ck, std::iter::once(&lp), None).map_err(|e| format!("{:?}", e))?;
                        let (cm2, _) = <$A as Adapter>::PC::commit(&ck, std::iter::once(&lp), None).map_err(|e| format!("{:?}", e))?;
                        let (n_rows, n_cols, n_ext, root) = lc::commitment_parts::<MTConfig>(cm[0].commitment());
                        if lc::commitment_parts::<MTConfig>(cm2[0].commitment()).3 != root {
                            return Err("commitment is not deterministic".into());
                        }
                        // independent recomputation: row-major matrix, zero padded; rows encoded; columns hashed;
                        // leaves padded to a power of two with the default leaf; Merkle root
                        let mut coeffs = <$L>::poly_to_vec(&p);
                        if coeffs.is_empty() {
                            coeffs.push(F::zero());
                        }
                        if n_rows * n_cols < coeffs.len() {
                            return Err("matrix smaller than the coefficient vector".into());
                        }
                        coeffs.resize(n_rows * n_cols, F::zero());
                        let rows: Vec<Vec<F>> = (0..n_rows).map(|i| coeffs[i * n_cols..(i + 1) * n_cols].to_vec()).collect();
                        let ext: Vec<Vec<F>> = rows.iter().map(|r| <$L>::encode(r, &ck).unwrap()).collect();
                        if ext[0].len() != n_ext {
                            return Err("encoded row length differs from the commitment's n_ext_cols".into());
                        }
                        let mut leaves: Vec<Vec<u8>> = (0..n_ext)
                            .map(|j| {
                                let col: Vec<F> = (0..n_rows).map(|i| ext[i][j]).collect();
                                ColH::<F>::evaluate(ck.col_hash_params(), col).unwrap()
                            })
                            .collect();
                        leaves.resize(leaves.len().next_power_of_two(), Vec::new());
                        let tree = MerkleTree::<MTConfig>::new(ck.leaf_hash_param(), ck.two_to_one_hash_param(), &leaves).map_err(|_| "tree".to_string())?;
                        if tree.root() != root {
                            return Err(format!("root differs from the independent recomputation (size {}, {} vars, {})", size, nv, cls));
                        }
                        roots.push(root);
                        n += 1;
                    }
                    // different polynomials -> different roots (the two "full" ones, zero, const, sparse)
                    for i in 0..roots.len() {
                        for j in 0..i {
                            if roots[i] == roots[j] {
                                return Err("two different polynomials have the same root".into());
                            }
                        }
                    }
                }
                Ok(())
            })();
            res($what, n, r)
        }
    };
}
lincode_root!(root_uni, LigeroUni, ark_poly_commit::linear_codes::UnivariateLigero<F, MTConfig, UniPoly<F>, ColH<F>>, "ligero_uni_root");
lincode_root!(root_ml, LigeroMl, ark_poly_commit::linear_codes::MultilinearLigero<F, MTConfig, MlPoly<F>, ColH<F>>, "ligero_ml_root");
lincode_root!(root_bd, Brakedown, ark_poly_commit::linear_codes::MultilinearBrakedown<F, MTConfig, MlPoly<F>, ColH<F>>, "brakedown_root");

/// commit(a p + b q) = a commit(p) + b commit(q) for plain and shifted parts and for the randomness.
fn kzg_homomorphism(n_cases: usize) -> Value {
    let mut n = 0;
    let r = (|| -> Result<(), String> {
        let mut rng = rng_for("c08-hom", 0);
        let pp = MarlinPC::setup(8, None, &mut rng).map_err(|e| format!("{:?}", e))?;
        let (ck, _) = MarlinPC::trim(&pp, 6, 2, Some(&[6, 4])).map_err(|e| format!("{:?}", e))?;
        let spp = SonicPC::setup(8, None, &mut rng).map_err(|e| format!("{:?}", e))?;
        let (sck, _) = SonicPC::trim(&spp, 6, 2, Some(&[6, 4])).map_err(|e| format!("{:?}", e))?;
        for case in 0..n_cases {
            let dp = case % 5;
            let dq = (case / 5) % 5;
            let p = UniPoly::<F>::rand(dp, &mut rng);
            let q = if case % 7 == 0 { UniPoly::<F>::zero() } else { UniPoly::<F>::rand(dq, &mut rng) };
            let (a, b) = (F::rand(&mut rng), F::rand(&mut rng));
            let mut lin = UniPoly::<F>::zero();
            lin += (a, &p);
            lin += (b, &q);
            for bound in [None, Some(4usize), Some(6)] {
                let c = |x: &UniPoly<F>| -> Result<ark_poly_commit::marlin_pc::Commitment<E>, String> {
                    let lp = LabeledPolynomial::new("p".into(), x.clone(), bound, None);
                    let (c, _) = MarlinPC::commit(&ck, std::iter::once(&lp), None).map_err(|e| format!("{:?}", e))?;
                    Ok(*c[0].commitment())
                };
                let (cp, cq, cl) = (c(&p)?, c(&q)?, c(&lin)?);
                if cl.comm.0 != (cp.comm.0.into_group() * a + cq.comm.0.into_group() * b).into_affine() {
                    return Err("Marlin commitment is not additive".into());
                }
                if let (Some(sp), Some(sq), Some(sl)) = (cp.shifted_comm, cq.shifted_comm, cl.shifted_comm) {
                    if sl.0 != (sp.0.into_group() * a + sq.0.into_group() * b).into_affine() {
                        return Err("Marlin shifted commitment is not additive".into());
                    }
                }
                if q.is_zero() && !(cq.comm.0.is_zero()) {
                    return Err("zero polynomial does not map to the identity".into());
                }
                let sc = |x: &UniPoly<F>| -> Result<<E as Pairing>::G1Affine, String> {
                    let lp = LabeledPolynomial::new("p".into(), x.clone(), bound, None);
                    let (c, _) = SonicPC::commit(&sck, std::iter::once(&lp), None).map_err(|e| format!("{:?}", e))?;
                    Ok(c[0].commitment().0)
                };
                if sc(&lin)? != (sc(&p)?.into_group() * a + sc(&q)?.into_group() * b).into_affine() {
                    return Err("Sonic commitment is not additive".into());
                }
                n += 1;
            }
            // representation: explicit high-order zero coefficients do not change the commitment
            let mut padded = p.coeffs.clone();
            padded.push(F::zero());
            padded.push(F::zero());
            let pp2 = UniPoly::<F>::from_coefficients_vec(padded);
            let lp1 = LabeledPolynomial::new("p".into(), p.clone(), None, None);
            let lp2 = LabeledPolynomial::new("p".into(), pp2, None, None);
            let (c1, _) = MarlinPC::commit(&ck, std::iter::once(&lp1), None).map_err(|e| format!("{:?}", e))?;
            let (c2, _) = MarlinPC::commit(&ck, std::iter::once(&lp2), None).map_err(|e| format!("{:?}", e))?;
            if c1[0].commitment().comm != c2[0].commitment().comm {
                return Err("commitment depends on trailing zero coefficients".into());
            }
            // commitment randomness is additive (used by the combination code)
            use ark_poly_commit::kzg10::Randomness;
            use ark_poly_commit::PCCommitmentState;
            let r1 = Randomness::<F, UniPoly<F>>::rand(2, false, None, &mut rng);
            let r2 = Randomness::<F, UniPoly<F>>::rand(1, false, None, &mut rng);
            let mut sum = Randomness::<F, UniPoly<F>>::empty();
            sum += (a, &r1);
            sum += (b, &r2);
            let z = F::rand(&mut rng);
            if sum.blinding_polynomial.evaluate(&z) != a * r1.blinding_polynomial.evaluate(&z) + b * r2.blinding_polynomial.evaluate(&z) {
                return Err("commitment randomness is not additive".into());
            }
        }
        Ok(())
    })();
    res("kzg_family_homomorphism", n, r)
}

/// Two independent trims of one parameter set interoperate; boundary degrees.
fn interop() -> Value {
    let mut n = 0;
    let r = (|| -> Result<(), String> {
        let mut rng = rng_for("c09-interop", 0);
        let pp = MarlinPC::setup(6, None, &mut rng).map_err(|e| format!("{:?}", e))?;
        let (ck1, _vk1) = MarlinPC::trim(&pp, 4, 1, Some(&[4, 2])).map_err(|e| format!("{:?}", e))?;
        let (_ck2, vk2) = MarlinPC::trim(&pp, 4, 1, Some(&[2, 4, 4])).map_err(|e| format!("{:?}", e))?;
        let p = UniPoly::<F>::rand(4, &mut rng);
        let lp = LabeledPolynomial::new("p".into(), p.clone(), Some(4), Some(1));
        let mut cr = LogRng::new(5);
        let (cm, st) = MarlinPC::commit(&ck1, std::iter::once(&lp), Some(&mut cr as &mut dyn RngCore)).map_err(|e| format!("{:?}", e))?;
        let z = F::rand(&mut rng);
        let mut sp = LogSponge::<F>::fresh();
        let pr = MarlinPC::open(&ck1, std::iter::once(&lp), cm.iter(), &z, &mut sp, st.iter(), None).map_err(|e| format!("{:?}", e))?;
        let mut sv = LogSponge::<F>::fresh();
        if !MarlinPC::check(&vk2, cm.iter(), &z, vec![p.evaluate(&z)], &pr, &mut sv, None).map_err(|e| format!("{:?}", e))? {
            return Err("keys trimmed twice from one parameter set do not interoperate".into());
        }
        n += 1;
        // degree == supported commits, supported + 1 is refused
        let too = LabeledPolynomial::new("p".into(), UniPoly::<F>::rand(5, &mut rng), None, None);
        if MarlinPC::commit(&ck1, std::iter::once(&too), None).is_ok() {
            return Err("a polynomial of degree supported + 1 is committed".into());
        }
        n += 1;
        Ok(())
    })();
    res("interoperating_trims_and_boundaries", n, r)
}

pub fn c08(thorough: bool) -> Vec<Value> {
    let nvs: &[usize] = if thorough { &[2, 4, 6] } else { &[2, 4] };
    // sizes with 2 matrix rows, and sizes with 4 / 8 rows whose last row is short by 0, 1 and more entries
    let uni: Vec<(usize, i64)> = if thorough {
        vec![(1, -1), (2, -1), (5, -1), (16, -1), (33, -1), (100, -1), (255, -1), (383, -1), (384, -1), (401, -1), (402, -1), (1001, -1), (2001, -1), (2005, -1)]
    } else {
        vec![(1, -1), (5, -1), (16, -1), (33, -1), (100, -1), (400, -1), (401, -1), (402, -1), (2001, -1)]
    };
    let ml: Vec<(usize, i64)> = if thorough { vec![(1, 1), (1, 2), (1, 3), (1, 5), (1, 8)] } else { vec![(1, 1), (1, 3), (1, 5)] };
    vec![
        hyrax(nvs),
        pst13(if thorough { 40 } else { 10 }),
        mlpst(if thorough { &[1, 2, 3, 4, 5] } else { &[1, 2, 3] }),
        root_uni(&uni),
        root_ml(&ml),
        root_bd(&ml),
        kzg_homomorphism(if thorough { 100 } else { 30 }),
        interop(),
    ]
}
