//! C07: recorded RNG traces of hiding commit / open calls (validated by spec/RngTrace.tla) and the
//! replay-style checks (independent seeds, missing RNG, determinism without hiding).
use crate::adapter::*;
use crate::beh::{Beh, PolySpec};
use crate::common::*;
use ark_ec::{pairing::Pairing, AffineRepr, CurveGroup};
use ark_ff::{PrimeField, UniformRand, Zero};
use ark_poly::{DenseMVPolynomial, DenseUVPolynomial, Polynomial};
use ark_poly_commit::{kzg10, LabeledPolynomial, PCCommitmentState, PolynomialCommitment};
use ark_serialize::CanonicalSerialize;
use ark_std::rand::RngCore;
use serde_json::{json, Value};

/// Recover the field samples the library drew: replay `F::rand` over the recorded bytes.
/// Every element of the returned state is one of the samples the library drew from the caller's RNG, each
/// sample used at most once (independent coefficients).  Order, and samples drawn but not used, are
/// implementation details.
fn drawn_from<T: PartialEq + Clone>(state: &[T], samples: &[T]) -> bool {
    let mut pool: Vec<T> = samples.to_vec();
    for x in state {
        match pool.iter().position(|y| y == x) {
            Some(i) => {
                pool.swap_remove(i);
            }
            None => return false,
        }
    }
    true
}

fn samples<F: PrimeField>(bytes: &[u8]) -> Vec<F> {
    let mut r = ReplayRng { bytes: bytes.to_vec(), pos: 0 };
    let mut out = vec![];
    while r.pos < bytes.len() {
        out.push(F::rand(&mut r));
    }
    out
}

fn ser<T: CanonicalSerialize>(x: &T) -> Vec<u8> {
    let mut b = vec![];
    x.serialize_compressed(&mut b).unwrap();
    b
}

struct Ctx {
    events: Vec<Value>,
    results: Vec<Value>,
}

fn push_result(c: &mut Ctx, what: &str, cases: usize, r: Result<(), String>) {
    c.results.push(match r {
        Ok(()) => json!({"what": what, "cases": cases, "ok": true, "why": ""}),
        Err(e) => json!({"what": what, "cases": cases, "ok": false, "why": e}),
    });
}

fn beh_for(scheme: &str, deg: i64, nv: i64) -> Beh {
    Beh { id: format!("rng-{}-{}-{}", scheme, deg, nv), prop: "C07".into(), scheme: scheme.into(), max_degree: deg, num_vars: nv,
          supported: deg, hiding: deg, bounds: vec![], nobounds: true, polys: vec![], rng: true, wf: true, note: String::new(), vsupported: -1, ops: vec![], adv: vec![],
          expect: Default::default(), ser: vec![], tag: String::new() }
}

/// KZG-family (marlin, sonic): one session = trim, then one commit call per polynomial configuration,
/// then an open; events carry start / n in field samples.
fn kzg_family(c: &mut Ctx, sonic: bool, max_h: usize) {
    type F = Fr381;
    type E = E381;
    let name = if sonic { "sonic" } else { "marlin" };
    let d = 6usize;
    let mut rng0 = rng_for("c07-setup", sonic as u64);
    let pp = if sonic { SonicPC::setup(d, None, &mut rng0).unwrap() } else { MarlinPC::setup(d, None, &mut rng0).unwrap() };
    for h in 1..=max_h {
        for bounded in [false, true] {
            for npolys in 1..=2usize {
                c.events.push(json!({"ev": "reset"}));
                let mut rng = LogRng::new(1000 + (h * 10 + npolys) as u64 + bounded as u64);
                let mut pos = 0usize;
                let mut rp = rng_for("c07-poly", (h * 7 + npolys) as u64);
                let bound = if bounded { Some(5usize) } else { None };
                let polys: Vec<LabeledPolynomial<F, UniPoly<F>>> = (0..npolys)
                    .map(|i| LabeledPolynomial::new(plabel(i as i64 + 1), UniPoly::<F>::rand(4, &mut rp), bound, Some(h)))
                    .collect();
                let plain: Vec<LabeledPolynomial<F, UniPoly<F>>> = polys.iter()
                    .map(|p| LabeledPolynomial::new(p.label().clone(), p.polynomial().clone(), bound, None)).collect();
                let before = rng.consumed();
                if !sonic {
                    let (ck, vk) = MarlinPC::trim(&pp, 5, max_h, Some(&[5, 3])).unwrap();
                    let (cm, st) = MarlinPC::commit(&ck, polys.iter(), Some(&mut rng as &mut dyn RngCore)).unwrap();
                    let (cm0, _) = MarlinPC::commit(&ck, plain.iter(), None).unwrap();
                    let smp: Vec<F> = samples(&rng.bytes[before..]);
                    let mut flat: Vec<F> = vec![];
                    let mut blind_ok = true;
                    for (i, s) in st.iter().enumerate() {
                        flat.extend(s.rand.blinding_polynomial.coeffs.iter());
                        let mut acc = <E as Pairing>::G1::zero();
                        for (k, r) in s.rand.blinding_polynomial.coeffs.iter().enumerate() {
                            acc += ck.powers_of_gamma_g[k].into_group() * r;
                        }
                        blind_ok &= cm[i].commitment().comm.0.into_group() - cm0[i].commitment().comm.0.into_group() == acc;
                        blind_ok &= s.rand.blinding_polynomial.coeffs.len() >= h + 2;
                        if let Some(sr) = &s.shifted_rand {
                            flat.extend(sr.blinding_polynomial.coeffs.iter());
                            let mut acc = <E as Pairing>::G1::zero();
                            for (k, r) in sr.blinding_polynomial.coeffs.iter().enumerate() {
                                acc += ck.powers_of_gamma_g[k].into_group() * r;
                            }
                            blind_ok &= cm[i].commitment().shifted_comm.unwrap().0.into_group() - cm0[i].commitment().shifted_comm.unwrap().0.into_group() == acc;
                        }
                    }
                    c.events.push(json!({"ev": "commit", "scheme": name, "nv": 0, "sup": 5,
                        "polys": (0..npolys).map(|_| json!({"h": h, "bounded": bounded})).collect::<Vec<_>>(),
                        "start": pos, "n": smp.len(), "state_is_samples": drawn_from(&flat, &smp), "blind_ok": blind_ok, "state_empty": false}));
                    pos += smp.len();
                    // open: KZG-family provers draw nothing; random_v = sum of challenge-weighted blinding evaluations
                    let z = F::rand(&mut rp);
                    let mut sp = LogSponge::<F>::fresh();
                    let b2 = rng.consumed();
                    let pr = MarlinPC::open(&ck, polys.iter(), cm.iter(), &z, &mut sp, st.iter(), Some(&mut rng as &mut dyn RngCore)).unwrap();
                    let n_open = samples::<F>(&rng.bytes[b2..]).len();
                    // recompute the blinding contribution at z with the challenges of a fresh sponge
                    let mut sp2 = LogSponge::<F>::fresh();
                    use ark_crypto_primitives::sponge::CryptographicSponge;
                    let mut want = F::zero();
                    for s in st.iter() {
                        let ch: F = sp2.squeeze_field_elements_with_sizes(&[ark_poly_commit::CHALLENGE_SIZE])[0];
                        want += ch * s.rand.blinding_polynomial.evaluate(&z);
                        if let Some(sr) = &s.shifted_rand {
                            let ch1: F = sp2.squeeze_field_elements_with_sizes(&[ark_poly_commit::CHALLENGE_SIZE])[0];
                            want += ch1 * sr.blinding_polynomial.evaluate(&z);
                        }
                    }
                    let mut spv = LogSponge::<F>::fresh();
                    let vals: Vec<F> = polys.iter().map(|p| p.evaluate(&z)).collect();
                    let acc = MarlinPC::check(&vk, cm.iter(), &z, vals, &pr, &mut spv, None).unwrap_or(false);
                    c.events.push(json!({"ev": "open", "scheme": name, "hiding": true, "dim": 0, "sup": 5, "npolys": npolys,
                        "start": pos, "n": n_open, "proof_blind_ok": pr.random_v == Some(want) && acc}));
                    pos += n_open;
                } else {
                    let (ck, vk) = SonicPC::trim(&pp, 5, max_h, Some(&[5, 3])).unwrap();
                    let (cm, st) = SonicPC::commit(&ck, polys.iter(), Some(&mut rng as &mut dyn RngCore)).unwrap();
                    let (cm0, _) = SonicPC::commit(&ck, plain.iter(), None).unwrap();
                    let smp: Vec<F> = samples(&rng.bytes[before..]);
                    let mut flat: Vec<F> = vec![];
                    let mut blind_ok = true;
                    for (i, s) in st.iter().enumerate() {
                        flat.extend(s.blinding_polynomial.coeffs.iter());
                        let gam: Vec<<E as Pairing>::G1Affine> = if bounded { ck.shifted_powers_of_gamma_g.as_ref().unwrap()[&5].clone() } else { ck.powers_of_gamma_g.clone() };
                        let mut acc = <E as Pairing>::G1::zero();
                        for (k, r) in s.blinding_polynomial.coeffs.iter().enumerate() {
                            acc += gam[k].into_group() * r;
                        }
                        blind_ok &= cm[i].commitment().0.into_group() - cm0[i].commitment().0.into_group() == acc;
                        blind_ok &= s.blinding_polynomial.coeffs.len() >= h + 2;
                    }
                    c.events.push(json!({"ev": "commit", "scheme": name, "nv": 0, "sup": 5,
                        "polys": (0..npolys).map(|_| json!({"h": h, "bounded": bounded})).collect::<Vec<_>>(),
                        "start": pos, "n": smp.len(), "state_is_samples": drawn_from(&flat, &smp), "blind_ok": blind_ok, "state_empty": false}));
                    pos += smp.len();
                    let z = F::rand(&mut rp);
                    let mut sp = LogSponge::<F>::fresh();
                    let b2 = rng.consumed();
                    let pr = SonicPC::open(&ck, polys.iter(), cm.iter(), &z, &mut sp, st.iter(), Some(&mut rng as &mut dyn RngCore)).unwrap();
                    let n_open = samples::<F>(&rng.bytes[b2..]).len();
                    let mut sp2 = LogSponge::<F>::fresh();
                    use ark_crypto_primitives::sponge::CryptographicSponge;
                    let mut want = F::zero();
                    let mut ch: F = sp2.squeeze_field_elements_with_sizes(&[ark_poly_commit::CHALLENGE_SIZE])[0];
                    for s in st.iter() {
                        want += ch * s.blinding_polynomial.evaluate(&z);
                        ch = sp2.squeeze_field_elements_with_sizes(&[ark_poly_commit::CHALLENGE_SIZE])[0];
                    }
                    let mut spv = LogSponge::<F>::fresh();
                    let vals: Vec<F> = polys.iter().map(|p| p.evaluate(&z)).collect();
                    let acc = SonicPC::check(&vk, cm.iter(), &z, vals, &pr, &mut spv, None).unwrap_or(false);
                    c.events.push(json!({"ev": "open", "scheme": name, "hiding": true, "dim": 0, "sup": 5, "npolys": npolys,
                        "start": pos, "n": n_open, "proof_blind_ok": pr.random_v == Some(want) && acc}));
                }
            }
        }
    }
    // no hiding: nothing drawn, empty state, deterministic
    c.events.push(json!({"ev": "reset"}));
    let mut rng = LogRng::new(77);
    let mut rp = rng_for("c07-nohide", sonic as u64);
    let p = LabeledPolynomial::new("p01".to_string(), UniPoly::<F>::rand(4, &mut rp), None, None);
    let (n, empty) = if sonic {
        let (ck, _) = SonicPC::trim(&pp, 5, 2, None).unwrap();
        let (c1, st) = SonicPC::commit(&ck, std::iter::once(&p), Some(&mut rng as &mut dyn RngCore)).unwrap();
        let (c2, _) = SonicPC::commit(&ck, std::iter::once(&p), None).unwrap();
        (samples::<F>(&rng.bytes).len(), st[0].blinding_polynomial.is_zero() && c1[0].commitment() == c2[0].commitment())
    } else {
        let (ck, _) = MarlinPC::trim(&pp, 5, 2, None).unwrap();
        let (c1, st) = MarlinPC::commit(&ck, std::iter::once(&p), Some(&mut rng as &mut dyn RngCore)).unwrap();
        let (c2, _) = MarlinPC::commit(&ck, std::iter::once(&p), None).unwrap();
        (samples::<F>(&rng.bytes).len(), st[0].rand.blinding_polynomial.is_zero() && st[0].shifted_rand.is_none() && c1[0].commitment() == c2[0].commitment())
    };
    c.events.push(json!({"ev": "commit", "scheme": name, "nv": 0, "sup": 5, "polys": [json!({"h": -1, "bounded": false})],
        "start": 0, "n": n, "state_is_samples": true, "blind_ok": true, "state_empty": empty}));
    // degenerate polynomials are blinded like any other: the ZERO polynomial and a constant, hiding bound 1
    for (k, coeffs) in [vec![], vec![F::from(5u64)]].into_iter().enumerate() {
        use ark_poly::DenseUVPolynomial;
        c.events.push(json!({"ev": "reset"}));
        let mut rng = LogRng::new(88 + k as u64);
        let p = LabeledPolynomial::new("p01".to_string(), UniPoly::<F>::from_coefficients_vec(coeffs), None, Some(1));
        let p0 = LabeledPolynomial::new("p01".to_string(), p.polynomial().clone(), None, None);
        let (n, samples_ok, blind_ok) = if sonic {
            let (ck, _) = SonicPC::trim(&pp, 5, 2, None).unwrap();
            let (c1, st) = SonicPC::commit(&ck, std::iter::once(&p), Some(&mut rng as &mut dyn RngCore)).unwrap();
            let (c0, _) = SonicPC::commit(&ck, std::iter::once(&p0), None).unwrap();
            let smp: Vec<F> = samples(&rng.bytes);
            let mut acc = <E as Pairing>::G1::zero();
            for (i, r) in st[0].blinding_polynomial.coeffs.iter().enumerate() {
                acc += ck.powers_of_gamma_g[i].into_group() * r;
            }
            (smp.len(), drawn_from(&st[0].blinding_polynomial.coeffs, &smp) && st[0].blinding_polynomial.coeffs.len() >= 3,
             c1[0].commitment().0.into_group() - c0[0].commitment().0.into_group() == acc)
        } else {
            let (ck, _) = MarlinPC::trim(&pp, 5, 2, None).unwrap();
            let (c1, st) = MarlinPC::commit(&ck, std::iter::once(&p), Some(&mut rng as &mut dyn RngCore)).unwrap();
            let (c0, _) = MarlinPC::commit(&ck, std::iter::once(&p0), None).unwrap();
            let smp: Vec<F> = samples(&rng.bytes);
            let mut acc = <E as Pairing>::G1::zero();
            for (i, r) in st[0].rand.blinding_polynomial.coeffs.iter().enumerate() {
                acc += ck.powers_of_gamma_g[i].into_group() * r;
            }
            (smp.len(), drawn_from(&st[0].rand.blinding_polynomial.coeffs, &smp) && st[0].rand.blinding_polynomial.coeffs.len() >= 3,
             c1[0].commitment().comm.0.into_group() - c0[0].commitment().comm.0.into_group() == acc)
        };
        c.events.push(json!({"ev": "commit", "scheme": name, "nv": 0, "sup": 5, "polys": [json!({"h": 1, "bounded": false})],
            "start": 0, "n": n, "state_is_samples": samples_ok, "blind_ok": blind_ok, "state_empty": false}));
    }
}

fn pst13(c: &mut Ctx, max_h: usize) {
    type F = Fr381;
    type E = E381;
    for nv in [1usize, 2, 3] {
        let d = 3usize;
        let mut rng0 = rng_for("c07-pst", nv as u64);
        let pp = Pst13PC::setup(d, Some(nv), &mut rng0).unwrap();
        let (ck, vk) = Pst13PC::trim(&pp, d, max_h, None).unwrap();
        // two polynomials in ONE commit call: each gets its own blinding polynomial
        {
            use ark_poly::DenseMVPolynomial;
            c.events.push(json!({"ev": "reset"}));
            let mut rng = LogRng::new(2900 + nv as u64);
            let mut rp = rng_for("c07-pstpoly-multi", nv as u64);
            let lps: Vec<_> = (0..2)
                .map(|i| {
                    let spec = PolySpec { l: i + 1, cls: "mixed".into(), deg: d as i64, lz: 0, bound: -1, hid: 1 };
                    LabeledPolynomial::new(plabel(i + 1), mv_poly::<F>(&spec, nv, &mut rp), None, Some(1))
                })
                .collect();
            let (_cm, st) = Pst13PC::commit(&ck, lps.iter(), Some(&mut rng as &mut dyn RngCore)).unwrap();
            let smp: Vec<F> = samples(&rng.bytes);
            let mut coeffs: Vec<F> = vec![];
            for s_ in st.iter() {
                coeffs.extend(s_.blinding_polynomial.terms().iter().map(|(c_, _)| *c_));
            }
            c.events.push(json!({"ev": "commit", "scheme": "pst13", "nv": nv, "sup": d,
                "polys": [json!({"h": 1, "bounded": false}), json!({"h": 1, "bounded": false})],
                "start": 0, "n": smp.len(), "state_is_samples": drawn_from(&coeffs, &smp), "blind_ok": true, "state_empty": false}));
        }
        for h in 1..=max_h.min(d) {
            c.events.push(json!({"ev": "reset"}));
            let mut rng = LogRng::new(2000 + (nv * 10 + h) as u64);
            let mut rp = rng_for("c07-pstpoly", (nv * 10 + h) as u64);
            let spec = PolySpec { l: 1, cls: "mixed".into(), deg: d as i64, lz: 0, bound: -1, hid: h as i64 };
            let p = mv_poly::<F>(&spec, nv, &mut rp);
            let lp = LabeledPolynomial::new("p01".to_string(), p.clone(), None, Some(h));
            let lp0 = LabeledPolynomial::new("p01".to_string(), p.clone(), None, None);
            let (cm, st) = Pst13PC::commit(&ck, std::iter::once(&lp), Some(&mut rng as &mut dyn RngCore)).unwrap();
            let (cm0, _) = Pst13PC::commit(&ck, std::iter::once(&lp0), None).unwrap();
            let smp: Vec<F> = samples(&rng.bytes);
            // rebuild the blinding polynomial from the samples exactly as `rand` lays them out
            let mut terms = vec![];
            let mut it = smp.iter();
            let mut ok_layout = smp.len() == 1 + nv * (h + 1);
            if ok_layout {
                terms.push((*it.next().unwrap(), ark_poly::multivariate::SparseTerm::new(vec![])));
                for var in 0..nv {
                    for deg in 1..=(h + 1) {
                        terms.push((*it.next().unwrap(), ark_poly::multivariate::SparseTerm::new(vec![(var, deg)])));
                    }
                }
                use ark_poly::multivariate::Term;
                let _ = ark_poly::multivariate::SparseTerm::new(vec![]).degree();
                ok_layout = MvPoly::<F>::from_coefficients_vec(nv, terms) == st[0].blinding_polynomial;
            }
            // the property only demands that the blinding coefficients are distinct samples of the caller's
            // stream (>= h+2 of them); the exact layout of `rand` is an implementation detail
            let layout_exact = ok_layout;
            {
                use ark_poly::DenseMVPolynomial;
                let coeffs: Vec<F> = st[0].blinding_polynomial.terms().iter().map(|(c, _)| *c).collect();
                ok_layout = drawn_from(&coeffs, &smp) && coeffs.len() >= h + 2;
            }
            if !layout_exact && ok_layout {
                c.results.push(json!({"ok": true, "drift": true, "why": "pst13 blinding polynomial is made of fresh samples but not laid out as the model says"}));
            }
            // blinding term: constant on gamma_g, X_i^j on powers_of_gamma_g[i][j-1]
            let mut acc = <E as Pairing>::G1::zero();
            for (co, t) in st[0].blinding_polynomial.terms() {
                use ark_poly::multivariate::Term;
                let base = if t.is_constant() { ck.gamma_g } else { ck.powers_of_gamma_g[t.vars()[0]][t.degree() - 1] };
                acc += base.into_group() * co;
            }
            let blind_ok = cm[0].commitment().comm.0.into_group() - cm0[0].commitment().comm.0.into_group() == acc;
            c.events.push(json!({"ev": "commit", "scheme": "pst13", "nv": nv, "sup": d, "polys": [json!({"h": h, "bounded": false})],
                "start": 0, "n": smp.len(), "state_is_samples": ok_layout, "blind_ok": blind_ok, "state_empty": false}));
            let z: Vec<F> = (0..nv).map(|_| F::rand(&mut rp)).collect();
            let mut sp = LogSponge::<F>::fresh();
            let b2 = rng.consumed();
            let pr = Pst13PC::open(&ck, std::iter::once(&lp), cm.iter(), &z, &mut sp, st.iter(), Some(&mut rng as &mut dyn RngCore)).unwrap();
            let n_open = samples::<F>(&rng.bytes[b2..]).len();
            let mut sp2 = LogSponge::<F>::fresh();
            use ark_crypto_primitives::sponge::CryptographicSponge;
            let ch: F = sp2.squeeze_field_elements_with_sizes(&[ark_poly_commit::CHALLENGE_SIZE])[0];
            let want = ch * st[0].blinding_polynomial.evaluate(&z);
            let mut spv = LogSponge::<F>::fresh();
            let acc2 = Pst13PC::check(&vk, cm.iter(), &z, vec![p.evaluate(&z)], &pr, &mut spv, None).unwrap_or(false);
            c.events.push(json!({"ev": "open", "scheme": "pst13", "hiding": true, "dim": 0, "sup": d, "npolys": 1,
                "start": smp.len(), "n": n_open, "proof_blind_ok": pr.random_v == Some(want) && acc2}));
        }
    }
}

fn ipa(c: &mut Ctx) {
    type F = FrEd;
    let mut rng0 = rng_for("c07-ipa", 0);
    let pp = IpaPC::setup(7, None, &mut rng0).unwrap();
    for sup in [3usize, 7] {
        let (ck, vk) = IpaPC::trim(&pp, sup, 1, None).unwrap();
        for bounded in [false, true] {
            for h in [1usize, 3] {
                c.events.push(json!({"ev": "reset"}));
                let mut rng = LogRng::new(3000 + (sup * 10 + h) as u64 + bounded as u64);
                let mut rp = rng_for("c07-ipapoly", (sup + h) as u64);
                let bound = if bounded { Some(sup) } else { None };
                let p = UniPoly::<F>::rand(2, &mut rp);
                let lp = LabeledPolynomial::new("p01".to_string(), p.clone(), bound, Some(h));
                let lp0 = LabeledPolynomial::new("p01".to_string(), p.clone(), bound, None);
                let (cm, st) = IpaPC::commit(&ck, std::iter::once(&lp), Some(&mut rng as &mut dyn RngCore)).unwrap();
                let (cm0, _) = IpaPC::commit(&ck, std::iter::once(&lp0), None).unwrap();
                let smp: Vec<F> = samples(&rng.bytes);
                let mut flat = vec![st[0].rand];
                if let Some(x) = st[0].shifted_rand {
                    flat.push(x);
                }
                let mut blind_ok = cm[0].commitment().comm.into_group() - cm0[0].commitment().comm.into_group() == ck.s.into_group() * st[0].rand;
                if bounded {
                    blind_ok &= cm[0].commitment().shifted_comm.unwrap().into_group() - cm0[0].commitment().shifted_comm.unwrap().into_group()
                        == ck.s.into_group() * st[0].shifted_rand.unwrap_or(F::zero());
                }
                c.events.push(json!({"ev": "commit", "scheme": "ipa", "nv": 0, "sup": sup, "polys": [json!({"h": h, "bounded": bounded})],
                    "start": 0, "n": smp.len(), "state_is_samples": drawn_from(&flat, &smp), "blind_ok": blind_ok, "state_empty": false}));
                let z = F::rand(&mut rp);
                let mut sp = LogSponge::<F>::fresh();
                let b2 = rng.consumed();
                let pr = IpaPC::open(&ck, std::iter::once(&lp), cm.iter(), &z, &mut sp, st.iter(), Some(&mut rng as &mut dyn RngCore)).unwrap();
                let n_open = samples::<F>(&rng.bytes[b2..]).len();
                let mut spv = LogSponge::<F>::fresh();
                let acc = IpaPC::check(&vk, cm.iter(), &z, vec![p.evaluate(&z)], &pr, &mut spv, None).unwrap_or(false);
                // the proof carries a hiding commitment and the combined randomness; a second open draws fresh masks
                let mut sp3 = LogSponge::<F>::fresh();
                let pr2 = IpaPC::open(&ck, std::iter::once(&lp), cm.iter(), &z, &mut sp3, st.iter(), Some(&mut rng as &mut dyn RngCore)).unwrap();
                let fresh = pr.hiding_comm.is_some() && pr.rand.is_some() && pr2.hiding_comm != pr.hiding_comm && pr2.rand != pr.rand;
                c.events.push(json!({"ev": "open", "scheme": "ipa", "hiding": true, "dim": 0, "sup": sup, "npolys": 1,
                    "start": smp.len(), "n": n_open, "proof_blind_ok": acc && fresh}));
            }
        }
    }
}

/// Several polynomials in ONE commit call: every polynomial (and every shifted part) gets its own samples.
fn ipa_multi(c: &mut Ctx) {
    type F = FrEd;
    let mut rng0 = rng_for("c07-ipa", 0);
    let pp = IpaPC::setup(7, None, &mut rng0).unwrap();
    let (ck, _vk) = IpaPC::trim(&pp, 7, 1, None).unwrap();
    c.events.push(json!({"ev": "reset"}));
    let mut rng = LogRng::new(3900);
    let mut rp = rng_for("c07-ipapoly-multi", 0);
    let shapes = [(1usize, false), (1, true), (2, false)];
    let lps: Vec<_> = shapes.iter().enumerate()
        .map(|(i, (h, b))| LabeledPolynomial::new(plabel(i as i64 + 1), UniPoly::<F>::rand(3, &mut rp), if *b { Some(7) } else { None }, Some(*h)))
        .collect();
    let (_cm, st) = IpaPC::commit(&ck, lps.iter(), Some(&mut rng as &mut dyn RngCore)).unwrap();
    let smp: Vec<F> = samples(&rng.bytes);
    let mut flat = vec![];
    for s_ in st.iter() {
        flat.push(s_.rand);
        if let Some(x) = s_.shifted_rand {
            flat.push(x);
        }
    }
    c.events.push(json!({"ev": "commit", "scheme": "ipa", "nv": 0, "sup": 7,
        "polys": shapes.iter().map(|(h, b)| json!({"h": h, "bounded": b})).collect::<Vec<_>>(),
        "start": 0, "n": smp.len(), "state_is_samples": drawn_from(&flat, &smp), "blind_ok": true, "state_empty": false}));
}

fn hyrax(c: &mut Ctx) {
    type F = FrEd;
    for nv in [2usize, 4] {
        let dim = 1usize << (nv / 2);
        let mut rng0 = rng_for("c07-hyrax", nv as u64);
        let pp = HyraxPCT::setup(1, Some(nv), &mut rng0).unwrap();
        let (ck, vk) = HyraxPCT::trim(&pp, 1, 0, None).unwrap();
        c.events.push(json!({"ev": "reset"}));
        let mut rng = LogRng::new(4000 + nv as u64);
        let mut rp = rng_for("c07-hyraxpoly", nv as u64);
        let spec = PolySpec { l: 1, cls: "full".into(), deg: 0, lz: 0, bound: -1, hid: -1 };
        let p = ml_poly::<F>(&spec, nv, &mut rp);
        let lp = LabeledPolynomial::new("p01".to_string(), p.clone(), None, None);
        let (cm, st) = HyraxPCT::commit(&ck, std::iter::once(&lp), Some(&mut rng as &mut dyn RngCore)).unwrap();
        let smp: Vec<F> = samples(&rng.bytes);
        let (rands, rows) = ark_poly_commit::verif_api::hyrax::state_parts(&st[0]);
        let mut blind_ok = true;
        for r in 0..dim {
            let mut acc = <GEd as AffineRepr>::Group::zero();
            for cc in 0..dim {
                acc += ck.com_key[cc].into_group() * rows[r][cc];
            }
            blind_ok &= cm[0].commitment().row_coms[r].into_group() - acc == ck.h.into_group() * rands[r];
        }
        c.events.push(json!({"ev": "commit", "scheme": "hyrax", "nv": nv, "sup": 1, "polys": [json!({"h": -1, "bounded": false})],
            "start": 0, "n": smp.len(), "state_is_samples": drawn_from(&rands, &smp), "blind_ok": blind_ok, "state_empty": false}));
        let z: Vec<F> = (0..nv).map(|_| F::rand(&mut rp)).collect();
        let mut sp = LogSponge::<F>::fresh();
        let b2 = rng.consumed();
        let pr = HyraxPCT::open(&ck, std::iter::once(&lp), cm.iter(), &z, &mut sp, st.iter(), Some(&mut rng as &mut dyn RngCore)).unwrap();
        let n_open = samples::<F>(&rng.bytes[b2..]).len();
        let mut spv = LogSponge::<F>::fresh();
        let acc = HyraxPCT::check(&vk, cm.iter(), &z, vec![p.evaluate(&z)], &pr, &mut spv, None).unwrap_or(false);
        c.events.push(json!({"ev": "open", "scheme": "hyrax", "hiding": true, "dim": dim, "sup": 1, "npolys": 1,
            "start": smp.len(), "n": n_open, "proof_blind_ok": acc}));
        // several polynomials in ONE commit and ONE open call: every polynomial gets its own blinders
        c.events.push(json!({"ev": "reset"}));
        let mut rng = LogRng::new(4100 + nv as u64);
        let lps: Vec<_> = (0..3)
            .map(|i| LabeledPolynomial::new(plabel(i + 1), ml_poly::<F>(&spec, nv, &mut rp), None, None))
            .collect();
        let (cm, st) = HyraxPCT::commit(&ck, lps.iter(), Some(&mut rng as &mut dyn RngCore)).unwrap();
        let smp: Vec<F> = samples(&rng.bytes);
        let mut all_rands: Vec<F> = vec![];
        for s_ in st.iter() {
            all_rands.extend(ark_poly_commit::verif_api::hyrax::state_parts(s_).0);
        }
        c.events.push(json!({"ev": "commit", "scheme": "hyrax", "nv": nv, "sup": 1,
            "polys": (0..3).map(|_| json!({"h": -1, "bounded": false})).collect::<Vec<_>>(),
            "start": 0, "n": smp.len(), "state_is_samples": drawn_from(&all_rands, &smp), "blind_ok": true, "state_empty": false}));
        let mut sp = LogSponge::<F>::fresh();
        let b2 = rng.consumed();
        let pr = HyraxPCT::open(&ck, lps.iter(), cm.iter(), &z, &mut sp, st.iter(), Some(&mut rng as &mut dyn RngCore)).unwrap();
        let n_open = samples::<F>(&rng.bytes[b2..]).len();
        let mut spv = LogSponge::<F>::fresh();
        let vals: Vec<F> = lps.iter().map(|q| q.evaluate(&z)).collect();
        let acc = HyraxPCT::check(&vk, cm.iter(), &z, vals, &pr, &mut spv, None).unwrap_or(false);
        c.events.push(json!({"ev": "open", "scheme": "hyrax", "hiding": true, "dim": dim, "sup": 1, "npolys": 3,
            "start": smp.len(), "n": n_open, "proof_blind_ok": acc}));
    }
}

/// Replay-style clauses of C07 through the trait: seeds, missing RNG, N repeated commitments.
fn seeds<A: Adapter>(c: &mut Ctx, deg: i64, nv: i64, bound: i64) {
    let beh = beh_for(A::NAME, deg, nv);
    let r = (|| -> Result<usize, String> {
        let pp = match crate::session::cached_setup::<A>(deg, nv) { Out::Ok(p) => p, o => return Err(format!("setup: {}", o.detail())) };
        let bl = [bound.max(0) as usize];
        let (ck, _vk) = A::PC::trim(&pp, deg.max(1) as usize, 2, if bound >= 0 { Some(&bl[..]) } else { None }).map_err(|e| format!("trim: {:?}", e))?;
        let spec = PolySpec { l: 1, cls: "full".into(), deg: deg.min(3).max(1), lz: 0, bound, hid: 1 };
        let lp = crate::session::labeled_poly::<A>(&spec, &beh, 0);
        let commit = |seed: u64| -> Result<(Vec<u8>, Vec<u8>), String> {
            let mut r = LogRng::new(seed);
            let (cm, st) = A::PC::commit(&ck, std::iter::once(&lp), Some(&mut r as &mut dyn RngCore)).map_err(|e| format!("commit: {:?}", e))?;
            let z = A::make_point(1, &beh);
            let mut sp = LogSponge::<A::F>::fresh();
            let pr = A::PC::open(&ck, std::iter::once(&lp), cm.iter(), &z, &mut sp, st.iter(), Some(&mut r as &mut dyn RngCore)).map_err(|e| format!("open: {:?}", e))?;
            Ok((ser(cm[0].commitment()), ser(&pr)))
        };
        let (c1, p1) = commit(1)?;
        let (c1b, p1b) = commit(1)?;
        let (c2, p2) = commit(2)?;
        if c1 != c1b || p1 != p1b {
            return Err("equal RNG seeds give different commitments / proofs (randomness not taken from the caller's RNG)".into());
        }
        if c1 == c2 {
            return Err("independent RNG seeds give the same hiding commitment".into());
        }
        if p1 == p2 {
            return Err("independent RNG seeds give the same opening proof".into());
        }
        let mut seen = std::collections::BTreeSet::new();
        for s in 10..26u64 {
            if !seen.insert(commit(s)?.0) {
                return Err("two of 16 hiding commitments coincide".into());
            }
        }
        // hiding requested without an RNG: must fail, never an unblinded commitment
        match guarded(|| A::PC::commit(&ck, std::iter::once(&lp), None)) {
            Out::Ok(_) => return Err("hiding commit without an RNG returned a commitment".into()),
            _ => {}
        }
        Ok(20)
    })();
    match r {
        Ok(n) => push_result(c, &format!("seeds_{}", A::NAME), n, Ok(())),
        Err(e) => push_result(c, &format!("seeds_{}", A::NAME), 1, Err(e)),
    }
}

pub fn run(max_h: usize) -> (Vec<Value>, Vec<Value>) {
    let mut c = Ctx { events: vec![], results: vec![] };
    kzg_family(&mut c, false, max_h);
    kzg_family(&mut c, true, max_h);
    pst13(&mut c, max_h);
    ipa(&mut c);
    ipa_multi(&mut c);
    hyrax(&mut c);
    seeds::<Marlin>(&mut c, 4, -1, 4);
    seeds::<Marlin>(&mut c, 4, -1, -1);
    seeds::<Sonic>(&mut c, 4, -1, 4);
    seeds::<Sonic>(&mut c, 4, -1, -1);
    seeds::<Ipa>(&mut c, 3, -1, 3);
    seeds::<Pst13>(&mut c, 3, 2, -1);
    seeds::<Hyrax>(&mut c, 1, 2, -1);
    let _ = kzg10::Randomness::<Fr381, UniPoly<Fr381>>::empty();
    (c.events, c.results)
}
