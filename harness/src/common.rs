//! Shared plumbing: Poseidon test sponge, logging sponge and RNG wrappers, panic capture,
//! deterministic seeding, label mapping.
use ark_crypto_primitives::sponge::{
    poseidon::{PoseidonConfig, PoseidonSponge},
    Absorb, CryptographicSponge, FieldElementSize,
};
use ark_ff::PrimeField;
use ark_std::rand::{RngCore, SeedableRng};
use rand_chacha::ChaCha20Rng;
use sha2::{Digest, Sha256};
use std::cell::RefCell;
use std::panic::{catch_unwind, AssertUnwindSafe};
use std::sync::{Arc, Mutex};

/// Poseidon parameters identical to the repository's `test_sponge` (rate 2, capacity 1).
pub fn poseidon_config<F: PrimeField>() -> PoseidonConfig<F> {
    let full_rounds = 8;
    let partial_rounds = 31;
    let alpha = 17;
    let mds = vec![
        vec![F::one(), F::zero(), F::one()],
        vec![F::one(), F::one(), F::zero()],
        vec![F::zero(), F::one(), F::one()],
    ];
    let mut v = Vec::new();
    let mut ark_rng = ark_std::test_rng();
    for _ in 0..(full_rounds + partial_rounds) {
        let mut res = Vec::new();
        for _ in 0..3 {
            res.push(F::rand(&mut ark_rng));
        }
        v.push(res);
    }
    PoseidonConfig::new(full_rounds, partial_rounds, alpha, mds, v, 2, 1)
}

pub fn sha_hex(bytes: &[u8]) -> String {
    let mut h = Sha256::new();
    h.update(bytes);
    hex::encode(&h.finalize()[..8])
}

pub fn sha_full(bytes: &[u8]) -> String {
    let mut h = Sha256::new();
    h.update(bytes);
    hex::encode(h.finalize())
}

/// One logged sponge event.
#[derive(Clone, Debug, serde::Serialize)]
pub struct SpEvent {
    /// "absorb" | "squeeze_fe" | "squeeze_bytes" | "squeeze_bits"
    pub k: &'static str,
    /// absorbed byte length, or number of squeezed items
    pub n: usize,
    /// for squeeze_fe: bits of each element (0 = full)
    pub bits: usize,
    /// digest of absorbed bytes / squeezed output
    pub d: String,
}

pub type SpLog = Arc<Mutex<Vec<SpEvent>>>;

/// Coarse shape of a sponge log, in the vocabulary of spec/Transcript.tla:
/// "S" one short challenge squeezed, "F" full field elements squeezed, "A" an absorb,
/// "I" a run of (squeeze bytes, absorb them) pairs = derivation of column indices.
pub fn sponge_shape(log: &[SpEvent]) -> Vec<String> {
    let mut raw: Vec<&'static str> = vec![];
    for e in log {
        match e.k {
            "absorb" => raw.push("A"),
            "squeeze_fe" if e.bits > 0 => {
                for _ in 0..e.n.max(1) {
                    raw.push("S")
                }
            }
            "squeeze_fe" => raw.push("F"),
            "squeeze_bytes" => raw.push("B"),
            _ => raw.push("X"),
        }
    }
    let mut out: Vec<String> = vec![];
    let mut i = 0;
    while i < raw.len() {
        if raw[i] == "B" && i + 1 < raw.len() && raw[i + 1] == "A" {
            if out.last().map(|x| x != "I").unwrap_or(true) {
                out.push("I".into());
            }
            i += 2;
        } else {
            out.push(raw[i].into());
            i += 1;
        }
    }
    out
}

/// A sponge that delegates to a Poseidon sponge and logs every call.
#[derive(Clone)]
pub struct LogSponge<F: PrimeField> {
    pub inner: PoseidonSponge<F>,
    pub log: SpLog,
}

impl<F: PrimeField> LogSponge<F> {
    pub fn fresh() -> Self {
        LogSponge {
            inner: PoseidonSponge::new(&poseidon_config::<F>()),
            log: Arc::new(Mutex::new(Vec::new())),
        }
    }
    /// A copy with an independent (empty) log.
    pub fn fork_log(&self) -> Self {
        LogSponge {
            inner: self.inner.clone(),
            log: Arc::new(Mutex::new(Vec::new())),
        }
    }
    pub fn take_log(&self) -> Vec<SpEvent> {
        std::mem::take(&mut *self.log.lock().unwrap())
    }
    /// Digest of the full internal state (state vector and duplex mode).
    pub fn state_digest(&self) -> String {
        let mut bytes = Vec::new();
        for e in &self.inner.state {
            ark_serialize::CanonicalSerialize::serialize_compressed(e, &mut bytes).unwrap();
        }
        bytes.extend(format!("{:?}", self.inner.mode).as_bytes());
        sha_hex(&bytes)
    }
}

impl<F: PrimeField> CryptographicSponge for LogSponge<F> {
    type Config = PoseidonConfig<F>;
    fn new(params: &Self::Config) -> Self {
        LogSponge {
            inner: PoseidonSponge::new(params),
            log: Arc::new(Mutex::new(Vec::new())),
        }
    }
    fn absorb(&mut self, input: &impl Absorb) {
        let bytes = input.to_sponge_bytes_as_vec();
        self.log.lock().unwrap().push(SpEvent {
            k: "absorb",
            n: bytes.len(),
            bits: 0,
            d: sha_hex(&bytes),
        });
        self.inner.absorb(input)
    }
    fn squeeze_bytes(&mut self, num_bytes: usize) -> Vec<u8> {
        let out = self.inner.squeeze_bytes(num_bytes);
        self.log.lock().unwrap().push(SpEvent {
            k: "squeeze_bytes",
            n: num_bytes,
            bits: 0,
            d: sha_hex(&out),
        });
        out
    }
    fn squeeze_bits(&mut self, num_bits: usize) -> Vec<bool> {
        let out = self.inner.squeeze_bits(num_bits);
        let bytes: Vec<u8> = out.iter().map(|b| *b as u8).collect();
        self.log.lock().unwrap().push(SpEvent {
            k: "squeeze_bits",
            n: num_bits,
            bits: 0,
            d: sha_hex(&bytes),
        });
        out
    }
    fn squeeze_field_elements_with_sizes<G: PrimeField>(
        &mut self,
        sizes: &[FieldElementSize],
    ) -> Vec<G> {
        let out: Vec<G> = self.inner.squeeze_field_elements_with_sizes(sizes);
        let mut bytes = Vec::new();
        for e in &out {
            ark_serialize::CanonicalSerialize::serialize_compressed(e, &mut bytes).unwrap();
        }
        let bits = match sizes.first() {
            Some(FieldElementSize::Truncated(b)) => *b,
            _ => 0,
        };
        self.log.lock().unwrap().push(SpEvent {
            k: "squeeze_fe",
            n: sizes.len(),
            bits,
            d: sha_hex(&bytes),
        });
        out
    }
    fn squeeze_field_elements<G: PrimeField>(&mut self, num_elements: usize) -> Vec<G> {
        let out: Vec<G> = self.inner.squeeze_field_elements(num_elements);
        let mut bytes = Vec::new();
        for e in &out {
            ark_serialize::CanonicalSerialize::serialize_compressed(e, &mut bytes).unwrap();
        }
        self.log.lock().unwrap().push(SpEvent {
            k: "squeeze_fe",
            n: num_elements,
            bits: 0,
            d: sha_hex(&bytes),
        });
        out
    }
}

/// RNG wrapper counting the bytes drawn and remembering them (for C07).
pub struct LogRng {
    pub inner: ChaCha20Rng,
    pub bytes: Vec<u8>,
    pub calls: usize,
}

impl LogRng {
    pub fn new(seed: u64) -> Self {
        LogRng {
            inner: ChaCha20Rng::seed_from_u64(seed),
            bytes: Vec::new(),
            calls: 0,
        }
    }
    pub fn consumed(&self) -> usize {
        self.bytes.len()
    }
}

impl RngCore for LogRng {
    fn next_u32(&mut self) -> u32 {
        let v = self.inner.next_u32();
        self.bytes.extend_from_slice(&v.to_le_bytes());
        self.calls += 1;
        v
    }
    fn next_u64(&mut self) -> u64 {
        let v = self.inner.next_u64();
        self.bytes.extend_from_slice(&v.to_le_bytes());
        self.calls += 1;
        v
    }
    fn fill_bytes(&mut self, dest: &mut [u8]) {
        self.inner.fill_bytes(dest);
        self.bytes.extend_from_slice(dest);
        self.calls += 1;
    }
    fn try_fill_bytes(&mut self, dest: &mut [u8]) -> Result<(), ark_std::rand::Error> {
        self.fill_bytes(dest);
        Ok(())
    }
}

/// Replays a recorded byte string as an RNG (to recover which field elements were sampled).
pub struct ReplayRng {
    pub bytes: Vec<u8>,
    pub pos: usize,
}

impl RngCore for ReplayRng {
    fn next_u32(&mut self) -> u32 {
        let mut b = [0u8; 4];
        self.fill_bytes(&mut b);
        u32::from_le_bytes(b)
    }
    fn next_u64(&mut self) -> u64 {
        let mut b = [0u8; 8];
        self.fill_bytes(&mut b);
        u64::from_le_bytes(b)
    }
    fn fill_bytes(&mut self, dest: &mut [u8]) {
        for d in dest.iter_mut() {
            *d = if self.pos < self.bytes.len() {
                self.bytes[self.pos]
            } else {
                0
            };
            self.pos += 1;
        }
    }
    fn try_fill_bytes(&mut self, dest: &mut [u8]) -> Result<(), ark_std::rand::Error> {
        self.fill_bytes(dest);
        Ok(())
    }
}

thread_local! {
    static LAST_PANIC: RefCell<String> = RefCell::new(String::new());
}

pub fn install_quiet_panic_hook() {
    std::panic::set_hook(Box::new(|info| {
        let msg = if let Some(s) = info.payload().downcast_ref::<&str>() {
            s.to_string()
        } else if let Some(s) = info.payload().downcast_ref::<String>() {
            s.clone()
        } else {
            "panic".to_string()
        };
        let loc = info
            .location()
            .map(|l| format!("{}:{}", l.file(), l.line()))
            .unwrap_or_default();
        LAST_PANIC.with(|p| *p.borrow_mut() = format!("{} @ {}", msg, loc));
    }));
}

/// Outcome class of one library call.
#[derive(Clone, Debug, PartialEq, Eq, serde::Serialize)]
pub enum Out<T> {
    Ok(T),
    Err(String),
    Panic(String),
}

impl<T> Out<T> {
    pub fn class(&self) -> &'static str {
        match self {
            Out::Ok(_) => "ok",
            Out::Err(_) => "err",
            Out::Panic(_) => "panic",
        }
    }
    pub fn detail(&self) -> String {
        match self {
            Out::Ok(_) => String::new(),
            Out::Err(e) => e.clone(),
            Out::Panic(e) => e.clone(),
        }
    }
    pub fn ok(self) -> Option<T> {
        match self {
            Out::Ok(t) => Some(t),
            _ => None,
        }
    }
    pub fn is_ok(&self) -> bool {
        matches!(self, Out::Ok(_))
    }
}

/// Run a fallible library call; a panic is data.
pub fn guarded<T, E: std::fmt::Debug>(f: impl FnOnce() -> Result<T, E>) -> Out<T> {
    match catch_unwind(AssertUnwindSafe(f)) {
        Ok(Ok(t)) => Out::Ok(t),
        Ok(Err(e)) => {
            let s = format!("{:?}", e);
            Out::Err(s.chars().take(160).collect())
        }
        Err(_) => Out::Panic(LAST_PANIC.with(|p| p.borrow().chars().take(200).collect())),
    }
}

/// Run an infallible library call; a panic is data.
pub fn guarded_plain<T>(f: impl FnOnce() -> T) -> Out<T> {
    match catch_unwind(AssertUnwindSafe(f)) {
        Ok(t) => Out::Ok(t),
        Err(_) => Out::Panic(LAST_PANIC.with(|p| p.borrow().chars().take(200).collect())),
    }
}

pub fn verif_seed() -> u64 {
    std::env::var("VERIF_SEED")
        .ok()
        .and_then(|s| s.parse::<u64>().ok())
        .unwrap_or(1)
}

/// Deterministic sub-seed from the global seed, a string tag and an index.
pub fn subseed(tag: &str, idx: u64) -> u64 {
    let mut h = Sha256::new();
    h.update(verif_seed().to_le_bytes());
    h.update(tag.as_bytes());
    h.update(idx.to_le_bytes());
    let d = h.finalize();
    u64::from_le_bytes(d[..8].try_into().unwrap())
}

pub fn rng_for(tag: &str, idx: u64) -> ChaCha20Rng {
    ChaCha20Rng::seed_from_u64(subseed(tag, idx))
}

pub fn plabel(i: i64) -> String {
    format!("p{:02}", i)
}
pub fn qlabel(i: i64) -> String {
    format!("q{:02}", i)
}
pub fn elabel(i: i64) -> String {
    format!("e{:02}", i)
}
