//! Conformance checks that need real group arithmetic or random field elements:
//! PST13 universal parameters against the specification's monomial sets, and the public helpers.
use crate::adapter::*;
use crate::common::*;
use ark_ec::pairing::Pairing;
use ark_ff::{Field, One, UniformRand, Zero};
use ark_poly::{multivariate::Term, DenseMVPolynomial, DenseUVPolynomial, Polynomial};
use ark_poly_commit::ipa_pc::SuccinctCheckPolynomial;
use ark_poly_commit::{
    evaluate_query_set, LCTerm, LabeledPolynomial, LinearCombination, PCUniversalParams,
    PolynomialCommitment, QuerySet,
};
use ark_std::rand::Rng;
use serde_json::{json, Value};
use std::collections::{BTreeMap, BTreeSet};

type F = Fr381;

fn exps_of(t: &ark_poly::multivariate::SparseTerm, nv: usize) -> Vec<usize> {
    let mut e = vec![0usize; nv];
    for (v, p) in t.iter() {
        e[*v] += *p;
    }
    e
}

pub fn pst13params(req: &Value) -> Value {
    let nv = req["nv"].as_u64().unwrap() as usize;
    let d = req["D"].as_u64().unwrap() as usize;
    let expected: BTreeSet<Vec<usize>> = req["monomials"]
        .as_array()
        .unwrap()
        .iter()
        .map(|m| m.as_array().unwrap().iter().map(|x| x.as_u64().unwrap() as usize).collect())
        .collect();
    let mut rng = rng_for("pst13setup", (nv * 100 + d) as u64);
    let pp = match guarded(|| Pst13PC::setup(d, Some(nv), &mut rng)) {
        Out::Ok(p) => p,
        o => return json!({"ok": false, "why": format!("setup aborted: {}", o.detail())}),
    };
    let fail = |why: String| json!({"ok": false, "why": why});
    let keys: Vec<Vec<usize>> = pp.powers_of_g.keys().map(|t| exps_of(t, nv)).collect();
    let keyset: BTreeSet<Vec<usize>> = keys.iter().cloned().collect();
    if keys.len() != keyset.len() {
        return fail("duplicated monomial in powers_of_g".into());
    }
    if keyset != expected {
        let missing: Vec<_> = expected.difference(&keyset).take(3).collect();
        let extra: Vec<_> = keyset.difference(&expected).take(3).collect();
        return fail(format!("key set differs from the specification: missing {:?} extra {:?}", missing, extra));
    }
    // C(n+D, D)
    let mut binom: u128 = 1;
    for i in 0..d {
        binom = binom * (nv + d - i) as u128 / (i + 1) as u128;
    }
    if keys.len() as u128 != binom {
        return fail(format!("{} elements, expected C(n+D,D) = {}", keys.len(), binom));
    }
    if pp.max_degree() != d || pp.num_vars != nv || pp.beta_h.len() != nv {
        return fail("reported max_degree / num_vars / beta_h length wrong".into());
    }
    // trapdoor identity e(G[m x_i], H) == e(G[m], beta_i H)
    let by_exp: BTreeMap<Vec<usize>, <E381 as Pairing>::G1Affine> =
        pp.powers_of_g.iter().map(|(t, g)| (exps_of(t, nv), *g)).collect();
    let mut pairs = vec![];
    for (e, g) in by_exp.iter() {
        if e.iter().sum::<usize>() + 1 > d {
            continue;
        }
        for i in 0..nv {
            let mut e2 = e.clone();
            e2[i] += 1;
            pairs.push((*g, by_exp[&e2], i));
        }
    }
    let step = (pairs.len() / 400).max(1);
    for (k, (g, gx, i)) in pairs.iter().enumerate() {
        if k % step != 0 {
            continue;
        }
        if E381::pairing(*gx, pp.h) != E381::pairing(*g, pp.beta_h[*i]) {
            return fail(format!("trapdoor identity fails for variable {}", i));
        }
    }
    // hiding generators: powers_of_gamma_g[i][j] = beta_i^(j+1) gamma G, j = 0..D
    for i in 0..nv {
        if pp.powers_of_gamma_g[i].len() != d + 1 {
            return fail("powers_of_gamma_g has the wrong length".into());
        }
        let mut prev = pp.gamma_g;
        for j in 0..=d {
            if E381::pairing(pp.powers_of_gamma_g[i][j], pp.h) != E381::pairing(prev, pp.beta_h[i]) {
                return fail(format!("gamma power identity fails for variable {} power {}", i, j + 1));
            }
            prev = pp.powers_of_gamma_g[i][j];
        }
    }
    // trim keeps exactly the monomials up to the supported degree, same elements
    for sup in 1..=d {
        let (ck, vk) = match guarded(|| Pst13PC::trim(&pp, sup, 0, None)) {
            Out::Ok(k) => k,
            o => return fail(format!("trim({}) aborted: {}", sup, o.detail())),
        };
        let want: BTreeSet<Vec<usize>> = expected.iter().filter(|e| e.iter().sum::<usize>() <= sup).cloned().collect();
        let got: BTreeSet<Vec<usize>> = ck.powers_of_g.keys().map(|t| exps_of(t, nv)).collect();
        if got != want {
            return fail(format!("trim({}) keeps {} monomials, expected {}", sup, got.len(), want.len()));
        }
        if ck.powers_of_g.iter().any(|(t, g)| pp.powers_of_g[t] != *g) {
            return fail("trimmed element differs from the parameter element".into());
        }
        if vk.beta_h != pp.beta_h || vk.h != pp.h || vk.g != by_exp[&vec![0; nv]] || vk.gamma_g != pp.gamma_g {
            return fail("verifier key is not a sub-key of the parameters".into());
        }
        use ark_poly_commit::{PCCommitterKey, PCVerifierKey};
        if ck.supported_degree() != sup || vk.supported_degree() != sup || ck.max_degree() != d || vk.max_degree() != d {
            return fail("supported / max degree reports wrong".into());
        }
    }
    if guarded(|| Pst13PC::trim(&pp, d + 1, 0, None)).is_ok() {
        return fail("trim beyond max_degree is answered".into());
    }
    json!({"ok": true, "why": "", "elements": keys.len(), "pairs": pairs.len()})
}

fn rand_small<R: Rng>(rng: &mut R) -> F {
    match rng.gen_range(0..4) {
        0 => F::zero(),
        1 => F::one(),
        2 => -F::one(),
        _ => F::rand(rng),
    }
}

fn lc_value(lc: &LinearCombination<F>, asg: &BTreeMap<String, F>) -> F {
    lc.iter()
        .map(|(c, t)| match t {
            LCTerm::One => *c,
            LCTerm::PolyLabel(l) => *c * asg[l],
        })
        .sum()
}

fn rand_lc<R: Rng>(rng: &mut R, labels: &[String]) -> LinearCombination<F> {
    let mut lc = LinearCombination::empty("x");
    for _ in 0..rng.gen_range(0..4) {
        let c = rand_small(rng);
        if rng.gen_bool(0.25) {
            lc.push((c, LCTerm::One));
        } else {
            lc.push((c, LCTerm::PolyLabel(labels[rng.gen_range(0..labels.len())].clone())));
        }
    }
    lc
}

pub fn helpers(n: usize) -> Vec<Value> {
    let mut out = vec![];
    let labels: Vec<String> = (1..=3).map(plabel).collect();
    // 1. linear-combination arithmetic: random operator sequences of length 12
    let mut rng = rng_for("helpers-lc", 0);
    let mut why = String::new();
    for case in 0..n {
        let asg: BTreeMap<String, F> = labels.iter().map(|l| (l.clone(), F::rand(&mut rng))).collect();
        let mut lc = rand_lc(&mut rng, &labels);
        let mut val = lc_value(&lc, &asg);
        for _ in 0..12 {
            let other = rand_lc(&mut rng, &labels);
            let ov = lc_value(&other, &asg);
            let c = rand_small(&mut rng);
            match rng.gen_range(0..7) {
                0 => {
                    lc += (c, &other);
                    val += c * ov;
                }
                1 => {
                    lc -= (c, &other);
                    val -= c * ov;
                }
                2 => {
                    lc += &other;
                    val += ov;
                }
                3 => {
                    lc -= &other;
                    val -= ov;
                }
                4 => {
                    lc += c;
                    val += c;
                }
                5 => {
                    lc -= c;
                    val -= c;
                }
                _ => {
                    lc *= c;
                    val *= c;
                }
            }
            if lc_value(&lc, &asg) != val {
                why = format!("value law broken in case {}", case);
                break;
            }
        }
        if !why.is_empty() {
            break;
        }
    }
    out.push(json!({"what": "lincomb_random", "cases": n, "ok": why.is_empty(), "why": why}));
    // 2. succinct check polynomial: lengths 0..10
    let mut rng = rng_for("helpers-cp", 0);
    let mut why = String::new();
    for case in 0..n {
        let k = case % 11;
        let us: Vec<F> = (0..k).map(|_| rand_small(&mut rng)).collect();
        let cp = SuccinctCheckPolynomial::<F>(us);
        let coeffs = cp.compute_coeffs();
        if coeffs.len() != 1 << k {
            why = format!("{} coefficients for {} challenges", coeffs.len(), k);
            break;
        }
        let z = F::rand(&mut rng);
        let horner = coeffs.iter().rev().fold(F::zero(), |acc, c| acc * z + c);
        if horner != cp.evaluate(z) {
            why = format!("evaluate != Horner(compute_coeffs) for {} challenges", k);
            break;
        }
    }
    out.push(json!({"what": "checkpoly_random", "cases": n, "ok": why.is_empty(), "why": why}));
    // 3. evaluate_query_set on shared labels / shared points
    let mut rng = rng_for("helpers-eqs", 0);
    let mut why = String::new();
    for case in 0..n {
        let polys: Vec<LabeledPolynomial<F, UniPoly<F>>> = labels
            .iter()
            .map(|l| {
                let deg = rng.gen_range(0..6);
                LabeledPolynomial::new(l.clone(), UniPoly::<F>::rand(deg, &mut rng), None, None)
            })
            .collect();
        let pts: Vec<F> = (0..3).map(|_| F::rand(&mut rng)).collect();
        let mut qs: QuerySet<F> = QuerySet::new();
        for _ in 0..rng.gen_range(1..8) {
            let l = labels[rng.gen_range(0..labels.len())].clone();
            let pl = qlabel(rng.gen_range(1..4));
            let pt = pts[rng.gen_range(0..pts.len())];
            qs.insert((l, (pl, pt)));
        }
        let ev = evaluate_query_set(polys.iter(), &qs);
        let keys: BTreeSet<(String, F)> = qs.iter().map(|(l, (_, p))| (l.clone(), *p)).collect();
        if ev.len() != keys.len() {
            why = format!("case {}: {} evaluations for {} distinct (label, point)", case, ev.len(), keys.len());
            break;
        }
        for (l, p) in keys {
            let poly = polys.iter().find(|x| x.label() == &l).unwrap();
            if ev.get(&(l.clone(), p)) != Some(&poly.evaluate(&p)) {
                why = format!("case {}: wrong or missing evaluation for {}", case, l);
                break;
            }
        }
        if !why.is_empty() {
            break;
        }
    }
    out.push(json!({"what": "evaluate_query_set_random", "cases": n, "ok": why.is_empty(), "why": why}));
    out
}

#[allow(dead_code)]
fn _t() {
    let _ = F::one().pow([1u64]);
    let _: Option<Box<dyn Fn(&MvPoly<F>) -> usize>> = Some(Box::new(|p| p.num_vars()));
}
