//! C10: an INDEPENDENT implementation of every scheme's verification relation (written from the
//! papers and spec/Verifier.tla, not from the crate's verifiers).  Challenges are derived from the
//! transcript with the schedule of spec/Transcript.tla.  `None` = relation not implemented here.
use crate::adapter::*;
use crate::common::*;
use ark_crypto_primitives::sponge::CryptographicSponge;
use ark_ec::{pairing::Pairing, AffineRepr, CurveGroup};
use ark_ff::{Field, One, PrimeField, Zero};
use ark_poly_commit::{LabeledCommitment, CHALLENGE_SIZE};
use ark_serialize::CanonicalSerialize;
use sha2::{Digest, Sha256};

type E = E381;
type F = Fr381;
type G1 = <E as Pairing>::G1;

fn chal<Fx: PrimeField>(sp: &mut LogSponge<Fx>) -> Fx {
    sp.squeeze_field_elements_with_sizes::<Fx>(&[CHALLENGE_SIZE])[0]
}

pub fn marlin(
    vk: &VK<Marlin>,
    comms: &[&LabeledCommitment<Comm<Marlin>>],
    z: &F,
    values: &[F],
    proof: &Proof<Marlin>,
    sp: &mut LogSponge<F>,
) -> Option<bool> {
    if comms.len() != values.len() {
        return Some(false);
    }
    let mut c = G1::zero();
    let mut v = F::zero();
    for (lc, val) in comms.iter().zip(values) {
        let cm = lc.commitment();
        if lc.degree_bound().is_some() != cm.shifted_comm.is_some() {
            return Some(false);
        }
        let xi = chal(sp);
        c += cm.comm.0.into_group() * xi;
        v += xi * val;
        if let Some(d) = lc.degree_bound() {
            let xi2 = chal(sp);
            let shift = match vk.degree_bounds_and_shift_powers.as_ref().and_then(|t| t.iter().find(|(b, _)| *b == d)) {
                Some((_, s)) => *s,
                None => return Some(false),
            };
            c += (cm.shifted_comm.unwrap().0.into_group() - shift.into_group() * val) * xi2;
        }
    }
    // e(C - vG - rv gammaG + z W, H) = e(W, beta H)
    let mut left = c - vk.vk.g.into_group() * v + proof.w.into_group() * z;
    if let Some(rv) = proof.random_v {
        left -= vk.vk.gamma_g.into_group() * rv;
    }
    Some(E::pairing(left, vk.vk.h) == E::pairing(proof.w, vk.vk.beta_h))
}

pub fn sonic(
    vk: &VK<Sonic>,
    comms: &[&LabeledCommitment<Comm<Sonic>>],
    z: &F,
    values: &[F],
    proof: &Proof<Sonic>,
    sp: &mut LogSponge<F>,
) -> Option<bool> {
    if comms.len() != values.len() {
        return Some(false);
    }
    // one challenge before the loop, one after every polynomial
    let mut xi = chal(sp);
    let mut v = F::zero();
    let mut plain = G1::zero();
    let mut bounded: Vec<(usize, G1)> = vec![];
    for (lc, val) in comms.iter().zip(values) {
        v += xi * val;
        let term = lc.commitment().0.into_group() * xi;
        match lc.degree_bound() {
            None => plain += term,
            Some(d) => match bounded.iter_mut().find(|(b, _)| *b == d) {
                Some((_, acc)) => *acc += term,
                None => bounded.push((d, term)),
            },
        }
        xi = chal(sp);
    }
    // prod_d e(C_d, beta^-(max-d) H) * e(C_none - vG - rv gammaG + z W, H) = e(W, beta H)
    let mut left = plain - vk.g.into_group() * v + proof.w.into_group() * z;
    if let Some(rv) = proof.random_v {
        left -= vk.gamma_g.into_group() * rv;
    }
    let mut acc = E::pairing(left, vk.h);
    for (d, cd) in bounded {
        let hd = match vk.degree_bounds_and_neg_powers_of_h.as_ref().and_then(|t| t.iter().find(|(b, _)| *b == d)) {
            Some((_, h)) => *h,
            None => return Some(false),
        };
        acc = acc + E::pairing(cd, hd);
    }
    Some(acc == E::pairing(proof.w, vk.beta_h))
}

pub fn pst13(
    vk: &VK<Pst13>,
    comms: &[&LabeledCommitment<Comm<Pst13>>],
    z: &Vec<F>,
    values: &[F],
    proof: &Proof<Pst13>,
    sp: &mut LogSponge<F>,
) -> Option<bool> {
    if comms.len() != values.len() || proof.w.len() != vk.num_vars || z.len() != vk.num_vars {
        return Some(false);
    }
    let mut c = G1::zero();
    let mut v = F::zero();
    for (lc, val) in comms.iter().zip(values) {
        if lc.degree_bound().is_some() || lc.commitment().shifted_comm.is_some() {
            return Some(false);
        }
        let xi = chal(sp);
        c += lc.commitment().comm.0.into_group() * xi;
        v += xi * val;
    }
    // e(C - vG - rv gammaG + sum z_j W_j, H) = prod_j e(W_j, beta_j H)
    let mut left = c - vk.g.into_group() * v;
    if let Some(rv) = proof.random_v {
        left -= vk.gamma_g.into_group() * rv;
    }
    let mut right = E::pairing(G1::zero(), vk.h);
    for j in 0..vk.num_vars {
        left += proof.w[j].into_group() * z[j];
        right = right + E::pairing(proof.w[j], vk.beta_h[j]);
    }
    Some(E::pairing(left, vk.h) == right)
}

fn ro_challenge(bytes: &[u8]) -> FrEd {
    use blake2::Blake2s256;
    let mut i = 0u64;
    loop {
        let mut inp = bytes.to_vec();
        inp.extend(i.to_le_bytes());
        let h = <Blake2s256 as digest::Digest>::digest(&inp);
        if let Some(c) = FrEd::from_random_bytes(&h) {
            return c;
        }
        i += 1;
    }
}

fn ser<T: CanonicalSerialize>(x: &T, out: &mut Vec<u8>) {
    x.serialize_uncompressed(out).unwrap();
}

thread_local! {
    /// (folded round commitment Q, h' = rc * h, h(z)) of the last `ipa` evaluation on this thread
    static IPA_PARTS: std::cell::RefCell<Option<(<GEd as AffineRepr>::Group, <GEd as AffineRepr>::Group, FrEd)>> = std::cell::RefCell::new(None);
}

/// The final commitment key K that makes the SUCCINCT part of the IPA relation hold for the statement as
/// shown (possibly with a false value) and the proof's (L, R, c):  c K + c h(z) h' = Q.  Such a K is a
/// commitment to the check polynomial only for an honest statement -- the final-key check must catch it.
pub fn ipa_forged_final_key(
    vk: &VK<Ipa>,
    comms: &[&LabeledCommitment<Comm<Ipa>>],
    z: &FrEd,
    values: &[FrEd],
    proof: &Proof<Ipa>,
    sp: &mut LogSponge<FrEd>,
) -> Option<GEd> {
    IPA_PARTS.with(|p| *p.borrow_mut() = None);
    let _ = ipa(vk, comms, z, values, proof, sp);
    let (q, hp, hz) = IPA_PARTS.with(|p| p.borrow_mut().take())?;
    let ci = proof.c.inverse()?;
    Some((q * ci - hp * hz).into_affine())
}

pub fn ipa(
    vk: &VK<Ipa>,
    comms: &[&LabeledCommitment<Comm<Ipa>>],
    z: &FrEd,
    values: &[FrEd],
    proof: &Proof<Ipa>,
    sp: &mut LogSponge<FrEd>,
) -> Option<bool> {
    type G = <GEd as AffineRepr>::Group;
    if comms.len() != values.len() {
        return Some(false);
    }
    let d = vk.comm_key.len() - 1;
    let k = (d + 1).next_power_of_two().trailing_zeros() as usize;
    if proof.l_vec.len() != k || proof.r_vec.len() != k || proof.hiding_comm.is_some() != proof.rand.is_some() {
        return Some(false);
    }
    let mut c = G::zero();
    let mut v = FrEd::zero();
    let mut cur = chal(sp);
    for (lc, val) in comms.iter().zip(values) {
        let cm = lc.commitment();
        if lc.degree_bound().is_some() != cm.shifted_comm.is_some() {
            return Some(false);
        }
        v += cur * val;
        c += cm.comm.into_group() * cur;
        cur = chal(sp);
        if let Some(b) = lc.degree_bound() {
            if b > d {
                return Some(false);
            }
            v += cur * val * z.pow([(d - b) as u64]);
            c += cm.shifted_comm.unwrap().into_group() * cur;
        }
        cur = chal(sp);
    }
    if let (Some(hc), Some(rand)) = (proof.hiding_comm, proof.rand) {
        let mut b = vec![];
        ser(&c.into_affine(), &mut b);
        ser(z, &mut b);
        ser(&v, &mut b);
        ser(&hc, &mut b);
        let hch = ro_challenge(&b);
        c += hc.into_group() * hch - vk.s.into_group() * rand;
    }
    let mut b = vec![];
    ser(&c.into_affine(), &mut b);
    ser(z, &mut b);
    ser(&v, &mut b);
    let mut rc = ro_challenge(&b);
    let hp = vk.h.into_group() * rc;
    let mut acc = c + hp * v;
    let mut rcs = vec![];
    for (l, r) in proof.l_vec.iter().zip(&proof.r_vec) {
        let mut b = vec![];
        ser(&rc, &mut b);
        ser(l, &mut b);
        ser(r, &mut b);
        rc = ro_challenge(&b);
        rcs.push(rc);
        acc += l.into_group() * rc.inverse()? + r.into_group() * rc;
    }
    // h(X) = prod_i (1 + u_i X^(2^(k-i))), expanded by explicit polynomial products
    let mut coeffs = vec![FrEd::one()];
    for (i, u) in rcs.iter().enumerate() {
        let step = 1usize << (k - 1 - i);
        let mut next = vec![FrEd::zero(); coeffs.len() + step];
        for (j, cj) in coeffs.iter().enumerate() {
            next[j] += cj;
            next[j + step] += *cj * u;
        }
        coeffs = next;
    }
    let hz = coeffs.iter().rev().fold(FrEd::zero(), |a, cj| a * z + cj);
    IPA_PARTS.with(|p| *p.borrow_mut() = Some((acc, hp, hz)));
    if acc != proof.final_comm_key.into_group() * proof.c + hp * (proof.c * hz) {
        return Some(false);
    }
    let mut fk = G::zero();
    for (j, cj) in coeffs.iter().enumerate() {
        if j < vk.comm_key.len() {
            fk += vk.comm_key[j].into_group() * cj;
        }
    }
    Some(fk == proof.final_comm_key.into_group())
}

/// eq-tensor of `vars` (little-endian index bits): t[i] = prod_k (bit_k(i) ? x_k : 1 - x_k)
fn eq_tensor<Fx: Field>(vars: &[Fx]) -> Vec<Fx> {
    let n = vars.len();
    (0..(1usize << n))
        .map(|i| (0..n).map(|k| if (i >> k) & 1 == 1 { vars[k] } else { Fx::one() - vars[k] }).product())
        .collect()
}

pub fn hyrax(
    vk: &VK<Hyrax>,
    comms: &[&LabeledCommitment<Comm<Hyrax>>],
    z: &Vec<FrEd>,
    _values: &[FrEd],
    proof: &Proof<Hyrax>,
    sp: &mut LogSponge<FrEd>,
) -> Option<bool> {
    type G = <GEd as AffineRepr>::Group;
    let n = z.len();
    if n % 2 == 1 || comms.len() != proof.len() {
        return Some(false);
    }
    let dim = 1usize << (n / 2);
    // M[r][c] = evals[c * dim + r]: the row index holds the low variables, the column index the high ones
    let l = eq_tensor(&z[..n / 2]);
    let r = eq_tensor(&z[n / 2..]);
    for (lc, pr) in comms.iter().zip(proof.iter()) {
        let rows = &lc.commitment().row_coms;
        if rows.len() != dim || pr.z.len() != dim || vk.com_key.len() != dim {
            return Some(false);
        }
        let mut b = vec![];
        vk.serialize_uncompressed(&mut b).ok()?;
        sp.absorb(&b);
        let mut b = vec![];
        rows.serialize_uncompressed(&mut b).ok()?;
        sp.absorb(&b);
        sp.absorb(z);
        for x in [&pr.com_eval, &pr.com_d, &pr.com_b] {
            let mut b = vec![];
            x.serialize_uncompressed(&mut b).ok()?;
            sp.absorb(&b);
        }
        let c: FrEd = sp.squeeze_field_elements(1)[0];
        // (14): <R, z> G_0 + z_b H = c com_eval + com_b
        let rz: FrEd = r.iter().zip(&pr.z).map(|(a, b)| *a * b).sum();
        if vk.com_key[0].into_group() * rz + vk.h.into_group() * pr.z_b != pr.com_eval.into_group() * c + pr.com_b.into_group() {
            if std::env::var("PCV_DEBUG").is_ok() { eprintln!("hyrax ref: eq14 fails"); }
            return Some(false);
        }
        // (13): sum z_i G_i + z_d H = c sum L_r T_r + com_d
        let mut lhs = vk.h.into_group() * pr.z_d;
        for (g, zi) in vk.com_key.iter().zip(&pr.z) {
            lhs += g.into_group() * zi;
        }
        let mut t = G::zero();
        for (row, lr) in rows.iter().zip(&l) {
            t += row.into_group() * lr;
        }
        if lhs != t * c + pr.com_d.into_group() {
            if std::env::var("PCV_DEBUG").is_ok() { eprintln!("hyrax ref: eq13 fails"); }
            return Some(false);
        }
        // the relation also demands that com_eval opens to the claimed value; the proof format of
        // this tree transmits no opening randomness, so that atom cannot be evaluated (finding D1)
    }
    Some(true)
}

fn sha(l: &[u8], r: &[u8]) -> Vec<u8> {
    let mut h = Sha256::new();
    h.update(l);
    h.update(r);
    h.finalize().to_vec()
}
fn ser_bytes(v: &[u8]) -> Vec<u8> {
    let mut o = (v.len() as u64).to_le_bytes().to_vec();
    o.extend_from_slice(v);
    o
}

/// Independent Merkle authentication for the test tree (identity leaf hash, SHA-256 nodes).
fn merkle_ok(leaf: &[u8], path: &ark_crypto_primitives::merkle_tree::Path<MTConfig>, root: &[u8]) -> bool {
    let mut idx = path.leaf_index;
    let mut cur = if idx & 1 == 0 {
        sha(&ser_bytes(leaf), &ser_bytes(&path.leaf_sibling_hash))
    } else {
        sha(&ser_bytes(&path.leaf_sibling_hash), &ser_bytes(leaf))
    };
    idx >>= 1;
    for sib in path.auth_path.iter().rev() {
        cur = if idx & 1 == 0 { sha(&cur, sib) } else { sha(sib, &cur) };
        idx >>= 1;
    }
    cur == root
}

pub fn lincode<L, P>(
    vk: &L::LinCodePCParams,
    comms: &[(usize, usize, usize, Vec<u8>)],
    z: &P::Point,
    values: &[F],
    proof: &[crate::forge::LcProof],
    sp: &mut LogSponge<F>,
) -> Option<bool>
where
    P: ark_poly::Polynomial<F>,
    P::Point: Clone,
    L: ark_poly_commit::linear_codes::LinearEncode<F, MTConfig, P, ColH<F>>,
{
    use ark_crypto_primitives::crh::CRHScheme;
    use ark_poly_commit::linear_codes::LinCodeParametersInfo;
    use ark_poly_commit::verif_api::linear_codes as lc;
    if comms.len() != values.len() || proof.len() < comms.len() {
        return Some(false);
    }
    for (i, ((n_rows, n_cols, n_ext, root), value)) in comms.iter().zip(values).enumerate() {
        let (paths, v, cols, wf) = lc::proof_parts(&proof[i]);
        let t = lc::calculate_t::<F>(vk.sec_param(), vk.distance(), *n_ext).ok()?;
        if v.len() != *n_cols || cols.len() != t || paths.len() != t {
            return Some(false);
        }
        let mut rb = vec![];
        root.serialize_compressed(&mut rb).ok()?;
        sp.absorb(&rb);
        let mut rr = None;
        if vk.check_well_formedness() {
            let w = match &wf {
                Some(w) if w.len() == *n_cols => w,
                _ => return Some(false),
            };
            let r: Vec<F> = sp.squeeze_field_elements(*n_rows);
            sp.absorb(w);
            rr = Some((r, L::encode(w, vk).ok()?));
        }
        sp.absorb(&L::point_to_vec(z.clone()));
        sp.absorb(&v);
        let nbytes = ((usize::BITS - n_ext.leading_zeros()) as usize + 7) / 8;
        let mut idx = vec![];
        for _ in 0..t {
            let b = sp.squeeze_bytes(nbytes);
            sp.absorb(&b);
            idx.push(b.iter().fold(0usize, |a, x| (a << 8) + *x as usize) % n_ext);
        }
        let w = L::encode(&v, vk).ok()?;
        let (a, b) = L::tensor(z, *n_cols, *n_rows);
        for j in 0..t {
            if cols[j].len() != *n_rows || paths[j].leaf_index != idx[j] {
                return Some(false);
            }
            let leaf = ColH::<F>::evaluate(vk.col_hash_params(), cols[j].clone()).ok()?;
            if !merkle_ok(&leaf, &paths[j], root) {
                return Some(false);
            }
            let ip = |x: &[F], y: &[F]| -> F { x.iter().zip(y).map(|(p, q)| *p * q).sum() };
            if ip(&b, &cols[j]) != w[idx[j]] {
                return Some(false);
            }
            if let Some((r, wwf)) = &rr {
                if ip(r, &cols[j]) != wwf[idx[j]] {
                    return Some(false);
                }
            }
        }
        if v.iter().zip(&a).map(|(p, q)| *p * q).sum::<F>() != *value {
            return Some(false);
        }
    }
    Some(true)
}
