----------------------------- MODULE KeyLayout -----------------------------
(***************************************************************************)
(* Where every key element comes from and where every coefficient goes.     *)
(*                                                                          *)
(* A structured reference string is a set of TABLES; an entry is            *)
(* <<base, e>>: the group generator `base` scaled by trapdoor^e  ("g" and   *)
(* "gamma" live in G1, "h" in G2; IPA/Hyrax keys are transparent: entry k   *)
(* is the k-th hash-derived generator <<"gen", k>>).  `setup` publishes the *)
(* universal tables, `trim` slices them, `commit` is a multi-scalar sum     *)
(* described by a RECIPE: a sequence of <<table, index, coefficient id>>    *)
(* (1-based index into the table; coefficient k = coefficient of X^k, or    *)
(* blinding coefficient k).                                                 *)
(*                                                                          *)
(* TLC checks the internal consistency of the layout for every (scheme,     *)
(* max_degree, supported_degree, hiding, enforced-bound list -- unsorted,   *)
(* duplicated, empty, None) and prints it; the harness compares the real    *)
(* keys element by element (C09), the real commitments with the naive sum   *)
(* over the recipe (C08), and the serialized sizes with the size laws       *)
(* (C12, C19).                                                              *)
(***************************************************************************)
EXTENDS Naturals, Integers, Sequences, FiniteSets, TLC, Json, SequencesExt

CONSTANTS KSchemes,     \* subset of {"marlin", "sonic", "ipa", "streaming"}
          KMaxDegs, KSups, KHidSet, KBoundSeqs, KNoBoundsToo

NONE == -1
RangeOf(seq) == {seq[i] : i \in DOMAIN seq}
MaxOf(S) == CHOOSE x \in S : \A y \in S : y <= x
SortInts(S) == SetToSortSeq(S, LAMBDA a, b : a < b)
RECURSIVE Pow2Ceil(_, _)
Pow2Ceil(n, acc) == IF acc >= n THEN acc ELSE Pow2Ceil(n, 2 * acc)
RoundIpa(d) == Pow2Ceil(d + 1, 1) - 1

VARIABLES cfg, lay, done
vars == <<cfg, lay, done>>

\* ---------------------------------------------------------------- universal parameters
\* KZG10::setup(D, produce_g2_powers)
UPowersOfG(D) == [i \in 1..(D + 1) |-> <<"g", i - 1>>]
UGamma(D) == [i \in 1..(D + 2) |-> <<"gamma", i - 1>>]
UNegH(D) == [i \in 1..(D + 1) |-> <<"h", -(i - 1)>>]

Slice(t, lo, hi) == [i \in 1..(hi - lo + 1) |-> t[lo + i]]     \* 0-based inclusive bounds lo..hi

\* ---------------------------------------------------------------- trim
BSet(c) == IF c.nobounds THEN {} ELSE RangeOf(c.bounds)
TrimOK(c) ==
  CASE c.s = "marlin" -> c.sup <= c.D /\ c.hid <= c.D /\ \A d \in BSet(c) : d <= c.D
    [] c.s = "sonic"  -> c.sup <= c.D /\ c.hid <= c.D /\ \A d \in BSet(c) : d <= c.sup
    [] c.s = "ipa"    -> RoundIpa(c.sup) <= RoundIpa(c.D)
    [] OTHER -> TRUE

Layout(c) ==
  LET D == c.D B == BSet(c) sorted == SortInts(B)
      maxB == IF B = {} THEN 0 ELSE MaxOf(B)
  IN
  CASE c.s = "marlin" ->
        [tables |->
           [ck_powers |-> Slice(UPowersOfG(D), 0, c.sup),
            ck_gamma |-> Slice(UGamma(D), 0, c.hid + 1),
            ck_shifted |-> IF B = {} THEN <<>> ELSE Slice(UPowersOfG(D), D - maxB, D),
            vk_shift |-> [k \in DOMAIN sorted |-> <<"g", D - sorted[k]>>]],
         bounds |-> sorted, has_shifted |-> B # {}, has_bounds |-> ~c.nobounds,
         supported |-> c.sup, max |-> D]
    [] c.s = "sonic" ->
        [tables |->
           [ck_powers |-> Slice(UPowersOfG(D), 0, c.sup),
            ck_gamma |-> Slice(UGamma(D), 0, c.hid + 1),
            ck_shifted |-> IF B = {} THEN <<>> ELSE Slice(UPowersOfG(D), D - maxB, D),
            vk_shift |-> [k \in DOMAIN sorted |-> <<"h", -(D - sorted[k])>>]],
         \* one window of hiding generators per bound: gamma^(D-d+i), i = 0..hid+1, cut at D+1
         gamma_windows |-> [k \in DOMAIN sorted |->
               [i \in 1..(IF c.hid + 2 < sorted[k] + 2 THEN c.hid + 2 ELSE sorted[k] + 2) |->
                   <<"gamma", D - sorted[k] + i - 1>>]],
         bounds |-> sorted, has_shifted |-> B # {}, has_bounds |-> ~c.nobounds,
         supported |-> c.sup, max |-> D]
    [] c.s = "ipa" ->
        [tables |-> [ck_powers |-> [i \in 1..(RoundIpa(c.sup) + 1) |-> <<"gen", i - 1>>],
                     ck_gamma |-> << <<"gen", RoundIpa(D) + 1>> >>,     \* s : generator number max+1
                     ck_shifted |-> <<>>,
                     vk_shift |-> << <<"gen", RoundIpa(D) + 2>> >>],    \* h : generator number max+2
         bounds |-> <<>>, has_shifted |-> FALSE, has_bounds |-> FALSE,
         supported |-> RoundIpa(c.sup), max |-> RoundIpa(D)]
    [] OTHER ->  \* streaming: CommitterKey::new(D, max_eval_points = hid + 1)
        [tables |-> [ck_powers |-> UPowersOfG(D),
                     ck_gamma |-> <<>>, ck_shifted |-> <<>>,
                     \* the G2 powers are taken from the D + 1 powers of tau: at most D + 1 of them
                     vk_shift |-> [i \in 1..(IF c.hid + 2 < D + 1 THEN c.hid + 2 ELSE D + 1) |-> <<"h", i - 1>>]],
         bounds |-> <<>>, has_shifted |-> FALSE, has_bounds |-> FALSE, supported |-> D, max |-> D]

\* ---------------------------------------------------------------- commit recipes
\* a polynomial shape: [deg, lz (low-order zero coefficients), bound, hid]
FirstNZ(p) == p.lz
RecipePlain(c, p, skip) ==
  \* MSM over the key prefix; with `skip` the low-order zero coefficients and as many bases are dropped
  LET from == IF skip THEN FirstNZ(p) ELSE 0 IN
  [k \in 1..(p.deg - from + 1) |-> <<"ck_powers", from + k, from + k - 1>>]
WindowStart(c, l, d) ==
  CASE c.s \in {"marlin", "sonic"} -> MaxOf(RangeOf(l.bounds)) - d       \* offset into ck_shifted
    [] c.s = "ipa" -> l.supported - d                                      \* offset into ck_powers
RecipeShifted(c, l, p, skip) ==
  LET from == IF skip THEN FirstNZ(p) ELSE 0
      tab == IF c.s = "ipa" THEN "ck_powers" ELSE "ck_shifted"
  IN [k \in 1..(p.deg - from + 1) |-> <<tab, WindowStart(c, l, p.bound) + from + k, from + k - 1>>]
RecipeBlind(c, l, p) ==
  CASE p.hid = NONE -> <<>>
    [] c.s = "ipa" -> << <<"ck_gamma", 1, 0>> >>
    [] c.s = "sonic" /\ p.bound # NONE ->
         LET w == CHOOSE k \in DOMAIN l.bounds : l.bounds[k] = p.bound IN
         [k \in 1..(p.hid + 2) |-> <<"gamma_window", k, k - 1, w>>]
    [] OTHER -> [k \in 1..(p.hid + 2) |-> <<"ck_gamma", k, k - 1>>]

\* exponent (or generator number) the recipe entry lands on
Entry(l, r) == IF r[1] = "gamma_window" THEN l.gamma_windows[r[4]][r[2]] ELSE l.tables[r[1]][r[2]]

Shapes(c, l) ==
  LET degs == 0..l.supported
      bnds == {NONE} \cup (IF c.s = "ipa" THEN {l.supported, 1} \cap (0..l.supported) ELSE RangeOf(l.bounds))
      hids == {NONE} \cup (IF c.s = "streaming" THEN {} ELSE {h \in {1, c.hid} : h >= 1 /\ h <= c.hid})
  IN {p \in [deg : degs, lz : {0, 1, 2}, bound : bnds, hid : hids] :
        /\ p.lz <= p.deg /\ (p.lz > 0 => p.deg >= 1)
        /\ p.bound # NONE => p.bound >= p.deg
        /\ c.s = "sonic" /\ p.bound # NONE /\ p.hid # NONE => p.hid <= p.bound
        /\ c.s = "streaming" => p.bound = NONE}

\* ---------------------------------------------------------------- state machine: one configuration per behaviour
Configs ==
  {c \in [s : KSchemes, D : KMaxDegs, sup : KSups, hid : KHidSet, nobounds : BOOLEAN, bounds : KBoundSeqs] :
     /\ c.sup <= c.D
     /\ c.nobounds => (KNoBoundsToo /\ c.bounds = <<>>)
     /\ c.s \in {"ipa", "streaming"} => (c.nobounds /\ KNoBoundsToo)
     /\ c.s = "streaming" => c.sup = c.D
     /\ TrimOK(c)}

Init == cfg \in Configs /\ lay = Layout(cfg) /\ done = FALSE
Emit == ~done /\ done' = TRUE /\ UNCHANGED <<cfg, lay>>
Next == Emit \/ (done /\ UNCHANGED vars)
Spec == Init /\ [][Next]_vars

\* ---------------------------------------------------------------- consistency laws
Exp(e) == e[2]
\* every trimmed G1 power is the universal power with the same exponent, consecutive, starting at 0
PrefixLaw == cfg.s \in {"marlin", "sonic", "streaming"} =>
               \A i \in DOMAIN lay.tables.ck_powers : lay.tables.ck_powers[i] = <<"g", i - 1>>
ReportsLaw == Len(lay.tables.ck_powers) = lay.supported + 1
\* the verifier's shift element for bound d is the element the committer's window for d starts at
ShiftLaw == cfg.s = "marlin" =>
   \A k \in DOMAIN lay.bounds :
      Exp(lay.tables.vk_shift[k]) = Exp(lay.tables.ck_shifted[WindowStart(cfg, lay, lay.bounds[k]) + 1])
\* Sonic: G1 window element times its G2 partner has the exponent of the unshifted key element
SonicPartnerLaw == cfg.s = "sonic" =>
   \A k \in DOMAIN lay.bounds : \A j \in 0..lay.bounds[k] :
      Exp(lay.tables.ck_shifted[WindowStart(cfg, lay, lay.bounds[k]) + 1 + j]) + Exp(lay.tables.vk_shift[k]) = j
\* a window for bound d has exactly d + 1 powers, so deg <= d fits and deg = d + 1 does not
WindowLaw == cfg.s \in {"marlin", "sonic"} =>
   \A k \in DOMAIN lay.bounds : Len(lay.tables.ck_shifted) - WindowStart(cfg, lay, lay.bounds[k]) = lay.bounds[k] + 1
\* enforced bounds are sorted and free of duplicates whatever the presentation
SortedLaw == \A k \in 1..(Len(lay.bounds) - 1) : lay.bounds[k] < lay.bounds[k + 1]
\* Sonic hiding windows: consecutive gamma powers from D - d, never beyond D + 1
GammaWindowLaw == cfg.s = "sonic" =>
   \A k \in DOMAIN lay.bounds : \A i \in DOMAIN lay.gamma_windows[k] :
      lay.gamma_windows[k][i] = <<"gamma", cfg.D - lay.bounds[k] + i - 1>> /\ cfg.D - lay.bounds[k] + i - 1 <= cfg.D + 1
\* skipping low-order zero coefficients does not change where the remaining coefficients land
SkipLaw == \A p \in Shapes(cfg, lay) :
   LET full == RecipePlain(cfg, p, FALSE) skp == RecipePlain(cfg, p, TRUE) IN
   \A k \in DOMAIN skp : \E j \in DOMAIN full : full[j] = skp[k] /\ full[j][3] >= p.lz
\* shifted recipes: coefficient k of a polynomial under bound d lands on exponent max - d + k
\* (marlin, sonic) resp. generator supported - d + k (ipa)
ShiftedRecipeLaw == \A p \in {x \in Shapes(cfg, lay) : x.bound # NONE} :
   \A r \in RangeOf(RecipeShifted(cfg, lay, p, FALSE)) :
      Exp(Entry(lay, r)) = (IF cfg.s = "ipa" THEN lay.supported ELSE cfg.D) - p.bound + r[3]
\* every recipe index exists in its table
InTable == \A p \in Shapes(cfg, lay) :
   /\ \A r \in RangeOf(RecipePlain(cfg, p, FALSE)) : r[2] \in DOMAIN lay.tables[r[1]]
   /\ p.bound # NONE => \A r \in RangeOf(RecipeShifted(cfg, lay, p, FALSE)) : r[2] \in DOMAIN lay.tables[r[1]]
   /\ \A r \in RangeOf(RecipeBlind(cfg, lay, p)) :
        IF r[1] = "gamma_window" THEN r[2] \in DOMAIN lay.gamma_windows[r[4]] ELSE r[2] \in DOMAIN lay.tables[r[1]]

Dump == done => PrintT(<<"DUMP", ToJson(
   [cfg |-> cfg, lay |-> lay,
    commits |-> LET ps == SetToSeq(Shapes(cfg, lay)) IN [i \in DOMAIN ps |->
        [shape |-> ps[i],
         plain |-> RecipePlain(cfg, ps[i], FALSE),
         shifted |-> IF ps[i].bound # NONE THEN RecipeShifted(cfg, lay, ps[i], FALSE) ELSE <<>>,
         blind |-> RecipeBlind(cfg, lay, ps[i])]]])>>)
=============================================================================
