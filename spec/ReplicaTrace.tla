---------------------------- MODULE ReplicaTrace ----------------------------
(***************************************************************************)
(* Trace validation for C18: events [ev |-> "digest", replica, step, d]     *)
(* recorded from real runs of the harness under different thread counts and *)
(* feature sets.  The first digest seen for a step fixes it; every later    *)
(* digest of that step (from any replica, or from a repeated run) must be   *)
(* identical -- the Agreement rule of Determinism.tla on recorded data.     *)
(***************************************************************************)
EXTENDS Naturals, Sequences, FiniteSets, TLC, Json, IOUtils

Rec == ndJsonDeserialize(IOEnv.TRACE)

VARIABLES l, seen
vars == <<l, seen>>

Init == l = 1 /\ seen = [x \in {} |-> ""]

TraceDigest ==
  /\ l <= Len(Rec) /\ Rec[l].ev = "digest"
  /\ LET e == Rec[l] IN
     /\ e.step \in DOMAIN seen => seen[e.step] = e.d
     /\ seen' = IF e.step \in DOMAIN seen THEN seen ELSE [x \in DOMAIN seen \cup {e.step} |-> IF x = e.step THEN e.d ELSE seen[x]]
  /\ l' = l + 1

TraceNext == TraceDigest
TraceSpec == Init /\ [][TraceNext]_vars

TraceAccepted ==
  LET d == TLCGet("stats").diameter IN
  IF d - 1 = Len(Rec) THEN TRUE
  ELSE Print(<<"UNMATCHED", d, IF d <= Len(Rec) THEN ToJson(Rec[d]) ELSE "end">>, FALSE)
=============================================================================
