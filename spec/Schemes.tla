------------------------------ MODULE Schemes ------------------------------
(***************************************************************************)
(* The scheme table of arkworks poly-commit: capabilities of every scheme   *)
(* and the CODE-FACTS record -- named booleans/enums whose value says what  *)
(* the code on the current tree does at the places the properties hinge on. *)
(* The verifier model (Verifier.tla) reads the facts; the property          *)
(* invariants (PCSession.tla) never do.  Every fact is tested against the   *)
(* code by replay (a fact that says "guard present" has behaviours that     *)
(* only a present guard rejects, and vice versa).                           *)
(***************************************************************************)
EXTENDS Naturals, Integers, Sequences, FiniteSets, TLC

CONSTANT Tree   \* "pinned" = the tree as found, "fixed" = after the fix: commits (the tree the checks run on)

Fixed == Tree = "fixed"

TraitSchemes == {"marlin", "sonic", "ipa", "pst13", "hyrax",
                 "ligero_uni", "ligero_ml", "brakedown"}

NONE == -1      \* "no degree bound" / "no hiding bound" / "no num_vars"

\* polynomial family: univariate (degree), multivariate (degree, num_vars), multilinear (num_vars)
Family(s) == CASE s \in {"marlin", "sonic", "ipa", "ligero_uni"} -> "uni"
               [] s = "pst13" -> "mv"
               [] OTHER -> "ml"

LinCode(s) == s \in {"ligero_uni", "ligero_ml", "brakedown"}
KZGLike(s) == s \in {"marlin", "sonic", "pst13"}

\* which schemes enforce degree bounds / honour hiding bounds
EnforcesBounds(s) == s \in {"marlin", "sonic", "ipa"}
HonoursHiding(s)  == s \in {"marlin", "sonic", "ipa", "pst13"}
\* hyrax blinds every commitment regardless of the hiding bound; linear codes never blind
AlwaysBlinds(s)   == s = "hyrax"

\* which batch verifier / LC path the scheme runs
BatchImpl(s) == CASE s = "marlin" -> "marlin"
                  [] s = "pst13"  -> "pst13"
                  [] s = "sonic"  -> "sonic"
                  [] s = "ipa"    -> "ipa"
                  [] OTHER        -> "default"
LCImpl(s) == CASE s \in {"marlin", "pst13"} -> "marlin"
               [] s = "sonic" -> "sonic"
               [] s = "ipa"   -> "ipa"
               [] OTHER       -> "default"

(***************************************************************************)
(* CODE FACTS.  Values describe the tree the checks run against.  When a    *)
(* defect is repaired by a "fix:" commit the fact is flipped in the same    *)
(* change to /verif.  (History: see known_findings.json.)                   *)
(***************************************************************************)
\* hyrax::check ignores the claimed values (`_values`): FALSE on this tree (finding D1)
UsesClaimedValue(s) == s # "hyrax"
\* LinearCodePCS::check: is the boolean of Path::verify looked at?        (D2, fixed)
ChecksMerkleResult(s) == Fixed
\* LinearCodePCS::check: are Len(v) / Len(well_formedness) tied to n_cols? (D3, fixed)
\* (Brakedown's encoder checks the message length itself on both trees)
GuardsOpeningVectorLength(s) == Fixed \/ s = "brakedown"
\* batch verifiers: is proof.len() == number of point labels enforced?
\*   "assert" (panics), "none" (zip truncation)                           (D4, fixed)
ProofCountGuard(s) == CASE BatchImpl(s) = "pst13" -> IF Fixed THEN "assert" ELSE "none"
                        [] OTHER -> "assert"
\* hyrax::check: is the per-polynomial proof list length tied to the commitments? (D5, fixed)
HyraxProofCountGuard == Fixed
\* IPA: round-count guard in check (Err) but not in batch_check
IpaRoundGuard(entry) == IF entry = "check" THEN "err" ELSE "none"
\* default check_combinations: evaluations re-associated by (label, point) only (D7, fixed)
DefaultLCKeyedByPointLabel == ~Fixed
\* univariate Ligero: zero polynomial handled by commit                     (D8, fixed)
LigeroZeroPolyPanics == ~Fixed
\* Brakedown: commit refuses a polynomial that does not fit the parameters' matrix shape (D15, fixed)
BrakedownGuardsSize == Fixed
\* batch_open / batch_check group a query set in a BTreeMap: keyed by the point label alone (the point of a label is
\* the FIRST one seen; queries at a second point under the same label, and the evaluations claimed there, are
\* dropped silently), or by (point label, point) so that every query lands in a group?  (defect D16 of DESIGN.md)
BatchGroupsByLabelAndPoint == Fixed
\* IPA: `check` refuses a proof whose number of rounds differs from log2(supported degree + 1); does `batch_check` (and
\* with it `check_combinations`)?  It commits the combined check polynomial with the key, and the MSM silently drops
\* the coefficients beyond the key's length: a proof with one round more, made with the key padded by identity
\* elements, verifies for p(z) + z^(d+1) b(z) for any b.  (defect D17 of DESIGN.md)
IpaBatchGuardsRounds == Fixed
\* linear codes: setup refuses num_vars = 0                                   (D14, fixed)
LinCodeRefusesZeroVars == Fixed
\* KZG-family commit accepts hiding_bound = Some(0) (blinds with a degree-1 polynomial); known finding D13
KzgAcceptsHidingZero == TRUE

=============================================================================
