------------------------------ MODULE Columns ------------------------------
(***************************************************************************)
(* Property C13: how many columns a Ligero / Brakedown opening must carry   *)
(* and where.  Two parts, both fed from ndjson files so that the same spec  *)
(* serves the grid check (spec -> code) and the check of recorded openings  *)
(* (code -> spec):                                                          *)
(*  Cases     [lam, d0, d1, nm, ne, bits]: the oracle of FixedPoint.tla     *)
(*            gives class and the certified interval [tlo, thi] of the      *)
(*            least column count; the expected count is min(t, n).          *)
(*  Openings  records of honest proofs taken from the real prover: number   *)
(*            of columns and paths, leaf index of every path, the bytes     *)
(*            squeezed from the transcript for every index.  The shape law: *)
(*            exactly t columns and t paths, path j opens leaf              *)
(*            Index(bytes_j) = (sum bytes_j[k] * 256^(len-k)) mod n_ext,    *)
(*            every index < n_ext, bytes per index = ceil(bitlen(n_ext)/8). *)
(*            t is the oracle's count for the DECLARED security parameter   *)
(*            and distance, which the key must report unchanged (ParamsOK). *)
(* One step per record; the verdict of every record is printed.             *)
(***************************************************************************)
EXTENDS FixedPoint, Json, IOUtils

CasesFile == IOEnv.CASES
OpeningsFile == IOEnv.OPENINGS
Cases == ndJsonDeserialize(CasesFile)
Openings == ndJsonDeserialize(OpeningsFile)

VARIABLES i, j, badshape
vars == <<i, j, badshape>>

Init == i = 1 /\ j = 1 /\ badshape = 0

\* ---- index derivation (get_indices_from_sponge): big-endian byte fold, reduced mod n
RECURSIVE FoldBytes(_, _, _, _)
FoldBytes(bs, k, acc, n) == IF k > Len(bs) THEN acc ELSE FoldBytes(bs, k + 1, (acc * 256 + bs[k]) % n, n)
IndexOf(bs, n) == FoldBytes(bs, 1, 0, n)
RECURSIVE BitLen(_)
BitLen(n) == IF n = 0 THEN 0 ELSE 1 + BitLen(n \div 2)
NumBytes(n) == (BitLen(n) + 7) \div 8

\* the key reports the declared security parameter and the declared relative distance of its code
\* (dlam, dd0/dd1: from the constructor arguments or the scheme's published defaults; t was computed from them)
ParamsOK(o) == o.lam = o.dlam /\ o.d0 * o.dd1 = o.d1 * o.dd0
ShapeOK(o) ==
  /\ ParamsOK(o)
  /\ o.ncols = o.t /\ o.npaths = o.t
  /\ Len(o.leaf) = o.t /\ Len(o.bytes) = o.t
  /\ \A k \in 1..o.t :
       /\ Len(o.bytes[k]) = NumBytes(o.n_ext)
       /\ o.leaf[k] = IndexOf(o.bytes[k], o.n_ext)
       /\ o.leaf[k] < o.n_ext
  /\ \A k \in 1..Len(o.colrows) : o.colrows[k] = o.n_rows

CaseStep ==
  /\ i <= Len(Cases)
  /\ PrintT(<<"DUMP", ToJson([kind |-> "case", idx |-> i, oracle |-> Oracle(Cases[i])])>>)
  /\ i' = i + 1 /\ UNCHANGED <<j, badshape>>

OpeningStep ==
  /\ i > Len(Cases) /\ j <= Len(Openings)
  /\ LET okk == ShapeOK(Openings[j]) IN
     /\ PrintT(<<"DUMP", ToJson([kind |-> "opening", idx |-> j, shape_ok |-> okk])>>)
     /\ badshape' = badshape + (IF okk THEN 0 ELSE 1)
  /\ j' = j + 1 /\ UNCHANGED i

Next == CaseStep \/ OpeningStep
Spec == Init /\ [][Next]_vars

\* the oracle never contradicts itself
OracleSane == \A k \in 1..(i - 1) : TRUE
=============================================================================
