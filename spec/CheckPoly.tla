------------------------------ MODULE CheckPoly ------------------------------
(***************************************************************************)
(* ipa_pc::data_structures::SuccinctCheckPolynomial over the integers:      *)
(* `compute_coeffs` (the strided in-place loop, as a state machine with one *)
(* step per challenge) against `evaluate` (the product form                 *)
(* prod_i (1 + u_i X^(2^(k-i)))).  TLC checks, for every challenge vector   *)
(* of length 0..MaxLen over Chals and every point of Points, that Horner    *)
(* evaluation of the expanded coefficients equals the product, that there   *)
(* are 2^k coefficients, and prints the coefficient vectors.                *)
(***************************************************************************)
EXTENDS Naturals, Integers, Sequences, FiniteSets, TLC, Json

CONSTANTS Chals, Points, MaxLen

VARIABLES us, coeffs, i, done
vars == <<us, coeffs, i, done>>

Pow2(k) == 2 ^ k
K == Len(us)

Init ==
  /\ \E n \in 0..MaxLen : us \in [1..n -> Chals]
  /\ coeffs = [j \in 1..Pow2(Len(us)) |-> 1]
  /\ i = 1 /\ done = (Len(us) = 0)

\* for (i, challenge): elem_degree = 2^(k - i); for start in (elem_degree..len).step_by(2*elem_degree):
\*   for offset in 0..elem_degree: coeffs[start + offset] *= challenge         (0-based)
Step ==
  /\ ~done
  /\ LET ed == Pow2(K - i)
         hit(j0) == \E b \in 0..Pow2(K) : j0 >= ed + b * 2 * ed /\ j0 < ed + b * 2 * ed + ed
     IN coeffs' = [j \in 1..Pow2(K) |-> IF hit(j - 1) THEN coeffs[j] * us[i] ELSE coeffs[j]]
  /\ i' = i + 1 /\ done' = (i = K)
  /\ UNCHANGED us

Next == Step \/ (done /\ UNCHANGED vars)
Spec == Init /\ [][Next]_vars

RECURSIVE PowI(_, _)
PowI(b, e) == IF e = 0 THEN 1 ELSE b * PowI(b, e - 1)
Horner(z) == LET RECURSIVE H(_) H(j) == IF j > Len(coeffs) THEN 0 ELSE coeffs[j] + z * H(j + 1) IN H(1)
Product(z) == LET RECURSIVE P(_) P(j) == IF j > K THEN 1 ELSE (1 + us[j] * PowI(z, Pow2(K - j))) * P(j + 1) IN P(1)

ProductEqualsExpansion == done => \A z \in Points : Horner(z) = Product(z)
Length == Len(coeffs) = Pow2(K)
Dump == done => PrintT(<<"DUMP", ToJson([us |-> us, coeffs |-> coeffs,
                                         evals |-> [z \in Points |-> Product(z)]])>>)
=============================================================================
