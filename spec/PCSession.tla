----------------------------- MODULE PCSession -----------------------------
(***************************************************************************)
(* A protocol SESSION of one polynomial-commitment scheme of the library:   *)
(*   Setup -> Trim -> Commit -> Open+ -> (adversary) -> Check+ -> done      *)
(* One action per public entry point; the arguments of every call are       *)
(* chosen nondeterministically from finite sets, so TLC enumerates the      *)
(* configuration space (degrees, bound lists, hiding, polynomial classes,   *)
(* query-set shapes, linear combinations, operation histories) and, at the  *)
(* `Adv` action, every move of the party that transports statement and      *)
(* proof.  Prover and verifier are modelled separately (Transcript.tla:     *)
(* the two schedules; Verifier.tla: the decision), each with its own sponge *)
(* log.  The invariants at the end compare the faithful verifier model with *)
(* what the properties demand; they never read the code facts.              *)
(*                                                                          *)
(* Every terminal state is also printed as one JSON behaviour (REPLAY ...)  *)
(* carrying the property-level expectation, which the Rust harness replays  *)
(* against the real library.                                                *)
(***************************************************************************)
EXTENDS Verifier, Json

CONSTANTS
  Scheme,       \* one of TraitSchemes
  Mode,         \* "C01" | "C02" | "C03" | "C04" | "C05" | "C06" | "C11" | "C17"
  MaxDegs,      \* set of max_degree arguments of setup
  Nvs,          \* set of num_vars arguments (NONE = not given)
  SupSet,       \* supported_degree arguments of trim
  HidSet,       \* supported_hiding_bound arguments of trim
  BoundSeqs,    \* enforced-bound lists as presented (sequences; unsorted / duplicated allowed)
  NoBoundsToo,  \* also try enforced_degree_bounds = None
  ClsSet,       \* polynomial classes to draw from
  MaxPolys,     \* number of committed polynomials
  OpKinds,      \* subset of {"open","batch","lc"}
  QsShapes,     \* subset of 1..6
  LcShapes,     \* subset of 1..6
  MaxOps,       \* operations per history
  WfSet,        \* linear codes: values of the public option check_well_formedness to set up with
  Emit,         \* print REPLAY lines
  Excused       \* known deviations of the tree: set of <<scheme, adversary-plan name>>

VARIABLES pc, pp, keys, polys, rng, ops, prs, spP, spAfter, stmts, adv, advname, want, spV, outs, ser

vars == <<pc, pp, keys, polys, rng, ops, prs, spP, spAfter, stmts, adv, advname, want, spV, outs, ser>>

\* --------------------------------------------------------------------------
\* arithmetic helpers
RECURSIVE SumSelRec(_, _, _)
SumSelRec(terms, is, i) ==
  IF i > Len(terms) THEN 0 ELSE (IF i \in is THEN terms[i][1] ELSE 0) + SumSelRec(terms, is, i + 1)
SumSel(terms, is) == SumSelRec(terms, is, 1)
RECURSIVE SumErrRec(_, _, _)
SumErrRec(terms, ds, i) ==
  IF i > Len(terms) THEN 0 ELSE terms[i][1] * ds[i] + SumErrRec(terms, ds, i + 1)
SumErr(terms, ds) == SumErrRec(terms, ds, 1)

S == Scheme
Fam == Family(S)

\* --------------------------------------------------------------------------
\* configuration spaces
HonestMode == Mode \in {"C01", "C02", "C03", "C05", "C06", "C10", "C11", "C12"}

KeySpace(maxdeg) ==
  LET base == {[sup |-> su, hid |-> h, nobounds |-> FALSE, bounds |-> b] :
                  su \in SupSet, h \in HidSet, b \in BoundSeqs}
      nb   == IF NoBoundsToo
              THEN {[sup |-> su, hid |-> h, nobounds |-> TRUE, bounds |-> <<>>] : su \in SupSet, h \in HidSet}
              ELSE {}
  IN base \cup nb

\* polynomial specifications for label l under `k` (the trimmed keys)
\* honest sessions stay within the REQUESTED supported degree (IPA pads it; see Admission)
HonSup(k) == IF S = "ipa" THEN k.sup ELSE EffSup(S, k)
DegChoices(k) == IF Fam = "ml" THEN {0} ELSE 1..HonSup(k)
BoundChoices(k, deg) ==
  {NONE} \cup (IF EnforcesBounds(S) /\ Mode # "C06x"
               THEN (IF S = "ipa" THEN {d \in deg..HonSup(k) : d \in {deg, HonSup(k)}}
                     ELSE {d \in BoundSet(k) : d >= deg})
               ELSE {})
HidChoices(k) == {NONE} \cup (IF HonoursHiding(S) THEN {h \in 1..k.hid : h \in {1, k.hid}} ELSE {})

InDomainPolys(k, l) ==
  {[l |-> l, cls |-> c, deg |-> d, lz |-> (IF c = "lowz" THEN 1 ELSE 0), bound |-> b, hid |-> h] :
      c \in ClsSet, d \in DegChoices(k), b \in {NONE} \cup BoundSet(k) \cup {0, HonSup(k)}, h \in HidChoices(k)}

PolyOK(k, p, r) ==
  /\ CommitClass1(S, pp.maxdeg, pp.nv, k, p, r) \in {"ok", "panics"}
  /\ p.bound \in BoundChoices(k, DegOf(p))
  /\ p.cls \in {"zero", "const"} => p.deg = MinOf(DegChoices(k))      \* canonical
  /\ p.cls = "lowz" => p.deg >= 2
  /\ p.cls = "mixed" => p.deg >= 2

\* out-of-domain magnitudes around every boundary (C17, admission half of C04)
BoundaryPolys(k, l) ==
  LET es == EffSup(S, k)
      degs == IF Fam = "ml" THEN {0} ELSE {1, es, es + 1}
      bnds == {NONE} \cup (IF EnforcesBounds(S) THEN {0, 1, es, es + 1, EffMax(S, pp.maxdeg), EffMax(S, pp.maxdeg) + 1} ELSE {1})
      hids == {NONE, 0, 1, k.hid, k.hid + 1}
      base == {[l |-> l, cls |-> "full", deg |-> d, lz |-> 0, bound |-> b, hid |-> h] :
                 d \in {x \in degs : x >= 0}, b \in {x \in bnds : x >= -1}, h \in {x \in hids : x >= -1}}
      nvs  == IF Fam = "ml" THEN {[l |-> l, cls |-> "nv", deg |-> n, lz |-> 0, bound |-> NONE, hid |-> NONE] :
                                    n \in {pp.nv - 2, pp.nv + 2} \cap Nat}
              ELSE {}
      zero == {[l |-> l, cls |-> "zero", deg |-> MinOf(DegChoices(k)), lz |-> 0, bound |-> NONE, hid |-> NONE]}
      \* X^lz * q: the size checks must look at the degree, not at the number of non-zero coefficients
      lowz == IF Fam = "uni"
              THEN {[l |-> l, cls |-> "lowz", deg |-> d, lz |-> z, bound |-> b, hid |-> NONE] :
                      d \in {x \in degs : x >= 2}, z \in {1, 2}, b \in {x \in bnds : x >= -1}}
              ELSE {}
  IN base \cup nvs \cup zero \cup lowz

\* a small pool for the second and later polynomials (keeps the product finite and relevant)
ExtraPolys(k, l) ==
  LET es == HonSup(k)
      d1 == IF Fam = "ml" THEN 0 ELSE 1
      top == IF Fam = "ml" THEN 0 ELSE es
      bset == BoundChoices(k, top) \ {NONE}
      bb == IF bset = {} THEN NONE ELSE MaxOf(bset)
      hh == IF HonoursHiding(S) /\ k.hid >= 1 THEN 1 ELSE NONE
  IN (IF S = "pst13"       \* same degree and number of terms as the class "uni", disjoint support
      THEN {[l |-> l, cls |-> "unilast", deg |-> top, lz |-> 0, bound |-> NONE, hid |-> NONE]} ELSE {})
     \cup
     { [l |-> l, cls |-> "full", deg |-> d1, lz |-> 0, bound |-> NONE, hid |-> NONE],
       [l |-> l, cls |-> "full", deg |-> top, lz |-> 0, bound |-> bb, hid |-> hh],
       [l |-> l, cls |-> "const", deg |-> MinOf(DegChoices(k)), lz |-> 0, bound |-> NONE, hid |-> NONE] }

FirstPolys(k, r) ==
  IF Mode \in {"C17", "C04A"} THEN BoundaryPolys(k, 1)
  ELSE {p \in InDomainPolys(k, 1) : PolyOK(k, p, r)}

PolyLists(k, r) ==
  LET n == MaxPolys
      firsts == FirstPolys(k, r)
      ex(l) == {p \in ExtraPolys(k, l) : PolyOK(k, p, r)}
  IN IF n = 1 THEN {<<p>> : p \in firsts}
     ELSE IF n = 2 THEN {<<p, q>> : p \in firsts, q \in ex(2)}
     ELSE {<<p, q, u>> : p \in firsts, q \in ex(2), u \in ex(3)}

\* --------------------------------------------------------------------------
\* operations
L == 1..MaxPolys
SpecialPts == {5, 6, 7}
UnknownLabel == 9
QsShape(i) ==
  CASE i = 1 -> {<<l, 1, 1>> : l \in L}                                         \* one group
    [] i = 2 -> {<<l, 1, 1>> : l \in L} \cup {<<1, 2, 2>>}                        \* one polynomial at two points
    [] i = 3 -> {<<l, 1, 1>> : l \in L} \cup {<<l, 2, 1>> : l \in L}              \* two labels share one value
    [] i = 4 -> {<<1, 1, 1>>} \cup {<<l, 2, 2>> : l \in L \ {1}}                  \* disjoint groups
    [] i = 5 -> {<<l, 1, 1>> : l \in L} \cup {<<l, 2, 2>> : l \in L} \cup {<<1, 3, 1>>}
    [] i = 6 -> {<<l, 1, 1>> : l \in L} \cup {<<l, 2, 2>> : l \in L}              \* k = 2 labels, all polynomials
    [] i = 7 -> {<<l, 1, 5>> : l \in L} \cup {<<1, 2, 6>>}                        \* the special points -1 and 0
    [] i = 8 -> {<<l, 1, 7>> : l \in L} \cup {<<l, 2, 5>> : l \in L}              \* the special points 1 and -1
    [] i = 10 -> {<<1, 1, 1>>} \cup {<<l, 2, 1>> : l \in L \ {1}}                 \* disjoint groups that share one point value
    [] i = 9 -> {<<l, 1, 1>> : l \in L} \cup {<<UnknownLabel, 1, 1>>}             \* a query for a polynomial that was never committed (C17)

LastL == MaxPolys
LcShape(i) ==
  CASE i = 1 -> << [l |-> 1, terms |-> << <<1, 1>> >>] >>
    [] i = 2 -> << [l |-> 1, terms |-> << <<2, 1>>, <<-1, LastL>>, <<3, 0>> >>] >>
    [] i = 3 -> << [l |-> 1, terms |-> << <<1, 1>>, <<-1, 1>>, <<2, 0>> >>] >>
    [] i = 4 -> << [l |-> 1, terms |-> << <<1, 1>> >>], [l |-> 2, terms |-> << <<1, LastL>> >>] >>
    [] i = 5 -> << [l |-> 1, terms |-> << <<0, 1>>, <<1, LastL>> >>] >>
    [] i = 6 -> << [l |-> 1, terms |-> << <<1, 1>>, <<1, LastL>> >>], [l |-> 2, terms |-> << <<-1, LastL>>, <<7, 0>> >>] >>
    \* 99 = a random field element (the harness draws it); a random constant as well
    [] i = 7 -> << [l |-> 1, terms |-> << <<99, 1>>, <<-1, LastL>>, <<99, 0>> >>] >>
    \* the constant term first, and in the middle (the order of the terms carries no meaning)
    [] i = 8 -> << [l |-> 1, terms |-> << <<5, 0>>, <<2, 1>>, <<-1, LastL>> >>],
                   [l |-> 2, terms |-> << <<1, 1>>, <<4, 0>>, <<1, LastL>> >>] >>
LcQs(lcs, i) ==
  LET E == {lcs[j].l : j \in DOMAIN lcs} IN
  CASE i = 1 -> {<<e, 1, 1>> : e \in E}
    [] i = 2 -> {<<e, 1, 1>> : e \in E} \cup {<<1, 2, 2>>}
    [] i = 3 -> {<<1, 1, 1>>, <<1, 2, 1>>} \cup {<<e, 2, 1>> : e \in E}        \* labels share a point value
    [] OTHER -> {<<e, 1, 1>> : e \in E}

OpSpace ==
  (IF "open" \in OpKinds
   THEN {[kind |-> "open", labels |-> SortInts(L), pt |-> 1, qs |-> {}, lcs |-> <<>>]}
        \cup (IF MaxPolys >= 2 /\ Mode = "C01"
              THEN {[kind |-> "open", labels |-> <<2, 1>>, pt |-> 2, qs |-> {}, lcs |-> <<>>]} ELSE {})
        \* the algebraically special points -1 (id 5), 0 (id 6), 1 (id 7)
        \* (not for the IPA degree-bound moves: IPA enforces a bound through the factor z^(D-d) of the
        \*  claimed value, which is 1 resp. 0 at z = 1, -1, 0 for several bounds at once -- the library
        \*  documents that bound enforcement needs a point sampled independently of the polynomial)
        \cup (IF Mode \in {"C01", "C02", "C03"} \/ (Mode = "C04" /\ S # "ipa")
              THEN {[kind |-> "open", labels |-> SortInts(L), pt |-> z, qs |-> {}, lcs |-> <<>>] : z \in SpecialPts} ELSE {})
   ELSE {})
  \cup (IF "batch" \in OpKinds
        THEN {[kind |-> "batch", labels |-> <<>>, pt |-> 0, qs |-> QsShape(i), lcs |-> <<>>] : i \in QsShapes}
        ELSE {})
  \cup (IF "lc" \in OpKinds
        THEN {[kind |-> "lc", labels |-> <<>>, pt |-> 0, qs |-> LcQs(LcShape(i), j), lcs |-> LcShape(i)] :
                i \in LcShapes, j \in {1, 2, 3}}
        ELSE {})

\* The polynomial / commitment / state lists handed to batch_open, open_combinations and their verifiers are
\* keyed by label: the order in which the caller lists them carries no meaning.  `perm` = 0: ascending labels
\* on both sides; 1: the prover's lists reversed; 2: the verifier's commitment list reversed; 3: both.
\* (C11: only in the long random histories -- MaxOps >= 4 is the simulation configuration -- the exhaustive
\*  models of 2 / 3 operations would grow 16- / 64-fold)
ListOrders == IF (Mode = "C01" \/ (Mode = "C11" /\ MaxOps >= 4)) /\ MaxPolys >= 2 THEN {0, 1, 2, 3} ELSE {0}
OpSpaceP0 == {o @@ [perm |-> p] : o \in OpSpace, p \in ListOrders} \ {o @@ [perm |-> p] : o \in {x \in OpSpace : x.kind = "open"}, p \in {1, 2, 3}}
\* Open-stage admission (C04, C17): the polynomial is handed to the prover DECLARED with another degree bound
\* than the one it was committed under -- one it exceeds, or one the keys were not trimmed for.  The prover must
\* refuse (the committer would have): obound = <<label, declared bound>>
RedeclaredOpens ==
  IF Mode \in {"C04A", "C17"} /\ EnforcesBounds(S) /\ "open" \in OpKinds /\ polys # <<>> /\ polys[1].bound # NONE
  THEN {[kind |-> "open", labels |-> SortInts(L), pt |-> 1, qs |-> {}, lcs |-> <<>>, perm |-> 0, obound |-> <<1, d>>] :
          d \in {x \in 0..pp.maxdeg : x # polys[1].bound
                                      /\ BoundClass(S, pp.maxdeg, keys, [polys[1] EXCEPT !.bound = x]) = "refuse"}}
  ELSE {}
OpSpaceP == {o @@ [obound |-> <<>>] : o \in OpSpaceP0} \cup RedeclaredOpens

\* --------------------------------------------------------------------------
\* honest artefacts
BoundOf(p) == IF EnforcesBounds(S) THEN p.bound ELSE NONE
HonestComm(p) ==
  [l |-> p.l, src |-> p.l, bound |-> BoundOf(p), lbound |-> BoundOf(p),
   shifted |-> IF BoundOf(p) # NONE /\ S \in {"marlin", "ipa"} THEN "own" ELSE "none",
   plain |-> "own"]

\* does the polynomial contribute to the opening proof (so that the proof is bound to transcript
\* and commitment)?  KZG family: non-constant or blinded (a constant has witness 0); IPA: every
\* non-zero polynomial (its commitment enters the hash chain of the rounds); Hyrax, linear codes: all
Contributing(p) == AlwaysBlinds(S) \/ LinCode(S) \/ p.cls \notin {"zero", "const"}
                   \/ (S = "ipa" /\ p.cls # "zero")
                   \/ (p.hid # NONE /\ HonoursHiding(S))

\* linear combinations on the homomorphic path become virtual polynomials / commitments
LcBoundP(lc) ==       \* prover side: policy on the POLYNOMIAL's bound
  LET bounded == {i \in PolyTerms(lc) : BoundOf(polys[lc.terms[i][2]]) # NONE} IN
  IF bounded = {} THEN [cls |-> "ok", bound |-> NONE]
  ELSE IF Len(lc.terms) = 1
       THEN (IF lc.terms[1][1] = 1 THEN [cls |-> "ok", bound |-> BoundOf(polys[lc.terms[1][2]])]
             ELSE [cls |-> "refuse", bound |-> NONE])
       ELSE [cls |-> "refuse", bound |-> NONE]

LcContrib(lc) == \E l \in LcLabels(lc) : LcForm(lc, L)[l] # 0 /\ Contributing(polys[l])

ProverEvents(plist, pt, op, g) ==
  CASE S = "hyrax" -> Flatten([j \in DOMAIN plist |-> HyraxEntryEvents(plist[j].src, pt, <<op, g, 10 * j>>)])
    [] LinCode(S)  -> Flatten([j \in DOMAIN plist |->
                         LinEntryEvents(plist[j].src, pt, <<op, g, 10 * j>>, <<op, g, 10 * j>>, keys.wf)])
    [] OTHER       -> ChalEvents(S, [j \in DOMAIN plist |-> plist[j].bound # NONE])

\* prove the groups of a query set one after the other; plist entries are [src, bound]
RECURSIVE ProveGroups(_, _, _, _, _, _)
ProveGroups(groups, lookup, sp, op, g, acc) ==
  IF g > Len(groups) THEN [prs |-> acc, sp |-> sp]
  ELSE LET gr == groups[g]
           plist == [j \in DOMAIN gr.labels |-> lookup[gr.labels[j]]]
           pr == [n |-> Len(plist), srcs |-> [j \in DOMAIN plist |-> plist[j].src],
                  bounds |-> [j \in DOMAIN plist |-> plist[j].bound], pt |-> gr.pt,
                  pre |-> sp, op |-> op, g |-> g, muts |-> {}]
       IN ProveGroups(groups, lookup, sp \o ProverEvents(plist, gr.pt, op, g), op, g + 1, Append(acc, pr))

PolyLookup == [l \in L |-> [src |-> l, bound |-> BoundOf(polys[l])]]
LcLookup(lcs) == [e \in {lcs[j].l : j \in DOMAIN lcs} |->
                    [src |-> 1000 + e, bound |-> LcBoundP(lcs[LcByLabel(lcs, e)]).bound]]

OpenClassOf(o) ==
  LET base == IF o.obound # <<>> THEN "refuse" ELSE OpenClass(S, keys, polys, rng) IN
  \* every implementation looks the queried labels up first: MissingPolynomial
  IF o.kind = "batch" /\ \E q \in o.qs : q[1] \notin L THEN "refuse"
  ELSE IF o.kind = "lc" /\ LCImpl(S) # "default"
  THEN Worst({base} \cup {LcBoundP(o.lcs[j]).cls : j \in DOMAIN o.lcs})
  ELSE base

Prove(o, sp, op) ==
  CASE o.kind = "open" ->
         ProveGroups(<<[pl |-> 0, pt |-> o.pt, labels |-> o.labels]>>, PolyLookup, sp, op, 1, <<>>)
    [] o.kind = "batch" -> ProveGroups(Groups(o.qs), PolyLookup, sp, op, 1, <<>>)
    [] o.kind = "lc" /\ LCImpl(S) = "default" ->
         ProveGroups(Groups(LcPolyQs(o.lcs, o.qs)), PolyLookup, sp, op, 1, <<>>)
    [] OTHER -> ProveGroups(Groups(o.qs), LcLookup(o.lcs), sp, op, 1, <<>>)

\* the statement shown to the verifier (honest version)
HonestStmt(o) ==
  [kind |-> o.kind, labels |-> o.labels, pt |-> o.pt, qs |-> o.qs, lcs |-> o.lcs,
   comms |-> [l \in L |-> HonestComm(polys[l])],
   deltas |-> [key \in (IF o.kind = "open" THEN {<<l, o.pt>> : l \in RangeOf(o.labels)} ELSE EvalKeys(o.qs)) |-> 0],
   \* default LC path: identity and delta of every transmitted polynomial evaluation
   tevals |-> IF o.kind = "lc" /\ LCImpl(S) = "default"
              THEN LET ks == ProverEvalKeys(LcPolyQs(o.lcs, o.qs)) IN [i \in DOMAIN ks |-> [key |-> ks[i], delta |-> 0]]
              ELSE <<>>,
   vkmut |-> "",         \* C10: which verifier-key element was replaced
   lookup |-> "",        \* C17: a label / evaluation the verifier will look up in vain
   olcs |-> o.lcs,       \* the combinations the prover opened (never changed by the adversary)
   pre |-> <<>>]         \* events the verifier's sponge absorbed beyond the prover's

\* --------------------------------------------------------------------------
\* the adversary's catalogue.  A plan is [name, want, moves]; `want` is what the
\* PROPERTY demands of the verifier for the perturbed statement.
M(kind) == [kind |-> kind, op |-> 1, l |-> 0, l2 |-> 0, pl |-> 0, pt |-> 0, pt2 |-> 0, k |-> 0, d |-> 0, pat |-> "", comp |-> ""]
Plan(name, w, moves) == [name |-> name, want |-> w, moves |-> moves]

ClaimKeys(st) == DOMAIN st.deltas
GroupsOfStmt(st) == IF st.kind = "open" THEN <<[pl |-> 0, pt |-> st.pt, labels |-> st.labels]>> ELSE Groups(st.qs)
FreshPt == 9

NonConstLabels == {l \in L : polys[l].cls \notin {"zero", "const"}}
ContribLabels == {l \in L : Contributing(polys[l])}
\* Bound to the transcript by more than a handful of bits.  A linear-code opening of the ZERO polynomial
\* (all-zero matrix: v = 0, v_wf = 0, identical columns) depends on the sponge only through the opened
\* column positions, and its codeword has 4 columns: with probability 4^-4 a proof made on another
\* transcript state is literally the honest proof.  Plans that demand rejection of a transplanted proof
\* need a polynomial outside this corner.
StrongLabels == {l \in ContribLabels : ~(LinCode(S) /\ polys[l].cls = "zero")}

ValueMove(key, pat) == [M("value") EXCEPT !.l = key[1], !.pt = key[2], !.pat = pat]

\* position of the squeeze that yields the opening challenge of claim (group g, position i) within batch_check
GroupFlags(st, gr) == [j \in DOMAIN gr.labels |-> st.comms[gr.labels[j]].lbound # NONE]
SqIndex(st, g, i) ==
  LET grs == Groups(st.qs)
      RECURSIVE Before(_)
      Before(k) == IF k = 0 THEN 0 ELSE Len(ChalEvents(S, GroupFlags(st, grs[k]))) + Before(k - 1)
  IN Before(g - 1) + ChalIndex(S, GroupFlags(st, grs[g]), i)
WKey(st, g, i) == LET gr == Groups(st.qs)[g] IN <<gr.labels[i], gr.pt>>
WeightedCands(st) ==
  LET grs == Groups(st.qs) IN
  {c \in (DOMAIN grs) \X (1..MaxPolys) \X (DOMAIN grs) \X (1..MaxPolys) :
      /\ c[1] < c[3] /\ c[2] <= Len(grs[c[1]].labels) /\ c[4] <= Len(grs[c[3]].labels)
      /\ WKey(st, c[1], c[2]) # WKey(st, c[3], c[4])
      \* IPA weights a degree-bounded polynomial with a second challenge times a power of the point
      /\ S = "ipa" => (st.comms[grs[c[1]].labels[c[2]]].lbound = NONE /\ st.comms[grs[c[3]].labels[c[4]]].lbound = NONE)}
\* cross-proof compensation (see the harness): first claim of the first group, if it carries no degree bound, the
\* first two groups at different point values; d = the first squeeze after all opening challenges of the call
TotalSqueezes(st) ==
  LET grs == Groups(st.qs)
      RECURSIVE Sum(_)
      Sum(k) == IF k = 0 THEN 0 ELSE Len(ChalEvents(S, GroupFlags(st, grs[k]))) + Sum(k - 1)
  IN Sum(Len(grs))
CompensatePlans(st) ==
  IF S \in {"marlin", "sonic", "pst13"} /\ st.kind = "batch" /\ Len(Groups(st.qs)) >= 2
  THEN (IF Groups(st.qs)[1].pt # Groups(st.qs)[2].pt /\ st.comms[Groups(st.qs)[1].labels[1]].lbound = NONE
        \* two hypotheses about the second randomizer: the next sponge squeeze (d > 0), or the constant 1 (d = 0)
        THEN {Plan("compensate", "not_accept",
                   <<[M("compensate") EXCEPT !.l = WKey(st, 1, 1)[1], !.pt = WKey(st, 1, 1)[2],
                                             !.k = SqIndex(st, 1, 1), !.d = dd]>>) : dd \in {TotalSqueezes(st) + 1, 0}}
        ELSE {})
  ELSE {}
PlansC02(st) ==
  \* a claimed value that differs, at every position
  {Plan("value", "not_accept", <<ValueMove(key, "plus")>>) : key \in ClaimKeys(st)}
  \* a point other than the one opened (for every point label with a non-constant polynomial)
  \cup {Plan("point", "not_accept", <<[M("point") EXCEPT !.pl = g.pl, !.pt2 = FreshPt]>>) :
           g \in {x \in RangeOf(GroupsOfStmt(st)) :
                    st.kind # "lc" /\ \E j \in DOMAIN x.labels : x.labels[j] \in NonConstLabels}}
  \* a commitment to a different polynomial in place of the original
  \cup {Plan("comm_swap", "not_accept", <<[M("comm_swap") EXCEPT !.l = l]>>) :
           l \in {x \in NonConstLabels : st.kind # "lc"
                    /\ \E g \in RangeOf(GroupsOfStmt(st)) : \E j \in DOMAIN g.labels : g.labels[j] = x}}

ProofMut(g, comp, k) == [M("proof_mut") EXCEPT !.l = g - 1, !.comp = comp, !.k = k]
Components ==
  CASE S \in {"marlin", "sonic"} -> {"replace:w"} \cup (IF \E l \in L : polys[l].hid # NONE THEN {"replace:random_v", "drop_random_v"} ELSE {"add_random_v"})
    [] S = "pst13" -> {"replace:w0", "replace:w_last"} \cup (IF \E l \in L : polys[l].hid # NONE THEN {"replace:random_v", "drop_random_v"} ELSE {})
    [] S = "ipa" -> {"replace:l0", "replace:l_last", "replace:r0", "replace:r_last", "replace:final_comm_key", "replace:c"}
                    \cup (IF \E l \in L : polys[l].hid # NONE THEN {"replace:hiding_comm", "replace:rand"} ELSE {})
    [] S = "hyrax" -> {"replace:com_eval", "replace:com_d", "replace:com_b", "replace:z0", "replace:z_last", "replace:z_d", "replace:z_b"}
    \* first and last element of every list, and Merkle digests at a position whose leaf index occurred before
    [] OTHER -> {"replace:v0", "replace:col0", "replace:path0", "replace:v_last", "replace:col_last",
                 "sibling:path_last", "sibling:path_repeat", "authpath:path_repeat"}
                \cup (IF keys.wf THEN {"replace:wf0", "replace:wf_last"} ELSE {})
ForgeKinds == {"forge_columns", "forge_stretch", "forge_nocolumns"}
Shapes ==
  CASE S = "ipa" -> {<<"rounds", 1>>, <<"rounds", -1>>, <<"rounds_unequal", 0>>, <<"drop_hiding_comm", 0>>}
    [] S = "pst13" -> {<<"wlen", 1>>, <<"wlen", -1>>}
    [] S = "hyrax" -> {<<"zlen", 1>>, <<"zlen", -1>>, <<"inner_empty", 0>>, <<"inner_trunc", 0>>}
    [] LinCode(S) -> (IF keys.wf THEN {<<"drop_wf", 0>>} ELSE {}) \cup {<<"cols_repeat", 0>>, <<"cols_shift", 0>>, <<"cols_trunc", 1>>,
                      <<"v_trunc", 0>>, <<"v_extend", 0>>, <<"path_sibling", 0>>, <<"inner_empty", 0>>,
                      <<"forge_columns", 0>>, <<"forge_stretch", 0>>, <<"forge_nocolumns", 0>>}
    [] OTHER -> {}

FirstKey(st) == CHOOSE key \in ClaimKeys(st) : \A k2 \in ClaimKeys(st) : ~LexLess(k2, key)
FalseValue(st) == ValueMove(FirstKey(st), "plus")
\* the claim about the last polynomial of the first group
LastValueFalse(st) == LET gr == GroupsOfStmt(st)[1] IN ValueMove(<<gr.labels[Len(gr.labels)], gr.pt>>, "plus")

ExtraRoundPlans(st) ==
  IF S = "ipa" /\ st.kind \in {"open", "batch"}
     /\ (\A j \in DOMAIN GroupsOfStmt(st)[1].labels : st.comms[GroupsOfStmt(st)[1].labels[j]].lbound = NONE)
  THEN {Plan("forge_extra_round", "not_accept", <<ProofMut(1, "forge_extra_round", 0)>>)}
  ELSE {}
PlansC03(st) ==
  LET key == FirstKey(st) l1 == key[1] IN
  \* prover run on (q, state_q) against commitment(p); the claim is q's value
  (IF l1 \in NonConstLabels
   THEN {Plan("other_poly", "not_accept",
              <<[M("proof_other_poly") EXCEPT !.l = l1], [M("value_other") EXCEPT !.l = l1, !.pt = key[2]]>>)}
   ELSE {})
  \* an honest proof for another point, shown for this point with the other point's value
  \cup (IF l1 \in NonConstLabels /\ st.kind # "lc"
        THEN {Plan("other_point", "not_accept",
                   <<[M("replay_other_point") EXCEPT !.pl = GroupsOfStmt(st)[1].pl, !.pt2 = FreshPt],
                     [M("value_at") EXCEPT !.l = l1, !.pt = key[2], !.pt2 = FreshPt]>>)}
        ELSE {})
  \* single component replaced, together with a false claimed value
  \cup {Plan("component", "not_accept", <<ProofMut(1, c, 0), FalseValue(st)>>) : c \in Components}
  \cup {Plan("component", "not_accept", <<ProofMut(1, c, 1), LastValueFalse(st)>>) :
          c \in {x \in Components : (S = "hyrax" \/ LinCode(S)) /\ prs[1] # <<>> /\ prs[1][1].n >= 2}}
  \* shape mutations, together with a false claimed value
  \cup {Plan("shape", "not_accept", <<ProofMut(1, sh[1], sh[2]), FalseValue(st)>>) :
          sh \in {x \in Shapes : x[1] \notin ForgeKinds}}
  \* crafted linear-code proofs (they come with their own false value); single-polynomial groups
  \cup {Plan("forge", "not_accept", <<ProofMut(1, sh[1], sh[2])>>) :
          sh \in {x \in Shapes : x[1] \in ForgeKinds /\ Len(GroupsOfStmt(st)[1].labels) = 1
                                   /\ (x[1] = "forge_stretch" => S # "brakedown")}}
  \* proof lists of the wrong length
  \cup (IF st.kind # "open"
        THEN {Plan("list", "not_accept", <<M(kd), FalseValue(st)>>) : kd \in {"list_empty", "list_trunc", "list_extend"}}
        ELSE {})
  \* IPA: one round MORE, made by the prover over the key padded with identity elements for p + X^(d+1) b, shown
  \* with the value (p + X^(d+1) b)(z): only the verifier's round-count guard stands between this and acceptance
  \cup ExtraRoundPlans(st)
  \* PST13: the point shown with one more coordinate e and the witness list with one more element
  \* w = +-(xi delta / e) g  (xi = the public opening challenge): only the pairing of EVERY witness with its own
  \* beta_j h - z_j h (or the refusal of a list longer than the key) stands between this and acceptance
  \cup (IF S = "pst13" /\ st.kind = "open" /\ Len(GroupsOfStmt(st)[1].labels) = 1
        THEN {Plan("forge_extra_witness", "not_accept", <<ProofMut(1, "wlen_forged", k)>>) : k \in {0, 1}}
        ELSE {})
  \cup CompensatePlans(st)
  \* IPA: for a false value, the final commitment key is SOLVED from the succinct part of the relation
  \* (c K + c h(z) h' = Q, all public) and put into the proof of every group in turn: only the final-key check
  \* (K is the commitment to the check polynomial) stands between this proof and acceptance
  \cup (IF S = "ipa" /\ st.kind # "lc"
        THEN {Plan("forge_key", "not_accept",
                   <<ValueMove(<<GroupsOfStmt(st)[g].labels[1], GroupsOfStmt(st)[g].pt>>, "plus"), ProofMut(g, "forge_ipa_key", 0)>>) :
                g \in DOMAIN GroupsOfStmt(st)}
        ELSE {})

BoundedLabels == {l \in L : BoundOf(polys[l]) # NONE /\ polys[l].cls # "zero"}
\* for Sonic a bound equal to max_degree shifts by zero: the artefact equals the unbounded one
SameBound(a, b) == a = b \/ (S = "sonic" /\ {a, b} \subseteq {NONE, pp.maxdeg})
PlansC04(st) ==
  \* made under d', labelled d
  {Plan("relabel", "not_accept", <<[M("relabel_bound") EXCEPT !.l = ld[1], !.d = ld[2]]>>) :
      \* every other label: enforced bounds, and for Marlin / Sonic also the bounds the keys were NOT trimmed
      \* for (in between and above the enforced ones): an unsupported label must be an error, not a look-up
      \* of a neighbouring bound
      ld \in {x \in BoundedLabels \X (IF S = "ipa" THEN 1..HonSup(keys) ELSE 1..pp.maxdeg) :
                 ~SameBound(x[2], polys[x[1]].bound) /\ (x[2] >= DegOf(polys[x[1]]) \/ x[2] \notin BoundSet(keys))}}
  \* made under NO bound (no degree-bound part at all), labelled d: nothing shows that the degree is at most d
  \cup {Plan("add_label", "not_accept", <<[M("relabel_bound") EXCEPT !.l = ld[1], !.d = ld[2]]>>) :
          ld \in {x \in {l \in L : BoundOf(polys[l]) = NONE /\ polys[l].cls # "zero" /\ (Contributing(polys[l]) \/ S # "sonic")}
                       \X (IF S = "ipa" THEN 1..HonSup(keys) ELSE 1..pp.maxdeg) : ~SameBound(x[2], NONE)}}
  \* the degree-bound part dropped / randomised: for a polynomial that contributes to the proof
  \* (for an unblinded constant, "no bound" is a true statement and the proof is trivial)
  \cup {Plan("drop_shifted", "not_accept", <<[M(lk[2]) EXCEPT !.l = lk[1]]>>) :
          lk \in {x \in BoundedLabels \X (IF S = "sonic" THEN {} ELSE {"drop_shifted", "drop_shifted_keep_label", "random_shifted"}) :
                    Contributing(polys[x[1]]) \/ x[2] # "drop_shifted"}}
  \cup {Plan("unlabel", "not_accept", <<[M("relabel_bound") EXCEPT !.l = l, !.d = NONE]>>) :
          l \in {x \in BoundedLabels : (Contributing(polys[x]) \/ S # "sonic") /\ ~SameBound(NONE, polys[x].bound)}}
  \* the degree-bound parts of two commitments EXCHANGED (their sum is unchanged: only independent challenges
  \* per polynomial keep the two apart)
  \cup {Plan("swap_shifted", "not_accept", <<[M("foreign_shifted") EXCEPT !.l = ll[1], !.l2 = ll[2]],
                                              [M("foreign_shifted") EXCEPT !.l = ll[2], !.l2 = ll[1]]>>) :
          ll \in {x \in BoundedLabels \X BoundedLabels : x[1] < x[2] /\ S # "sonic"
                                                         /\ (Contributing(polys[x[1]]) \/ Contributing(polys[x[2]]))}}
  \cup {Plan("foreign_shifted", "not_accept", <<[M("foreign_shifted") EXCEPT !.l = ll[1], !.l2 = ll[2]]>>) :
          ll \in {x \in BoundedLabels \X BoundedLabels : x[1] # x[2] /\ S # "sonic"}}

\* one query moved to ANOTHER point under its old point label, which then names two points; the claim at the new
\* point false ("plus") or true ("true").  Whatever the batch verifier makes of such a query set, it must not
\* answer "accept" while a claim of the statement is false.
RepointPlans(st, pats) ==
  IF st.kind # "batch" THEN {}
  ELSE {Plan("repoint_query", IF c[3] = "plus" THEN "not_accept" ELSE "any",
             <<[M("repoint_query") EXCEPT !.l = c[1][1], !.pl = c[1][2], !.pt = c[1][3], !.pt2 = c[2], !.pat = c[3]]>>) :
          c \in {x \in st.qs \X ({q[3] : q \in st.qs} \cup {FreshPt}) \X pats :
                   /\ x[2] # x[1][3]
                   /\ x[1][1] \in L
                   /\ \E q \in st.qs : q[2] = x[1][2] /\ q[1] # x[1][1]}}
Subsets2(K) == {T \in SUBSET K : Cardinality(T) \in {1, 2, 3}}
PlansC05(st) ==
  LET K == ClaimKeys(st)
      ks == SortTuples(K) IN
  \* every small subset of claims made false
  {Plan("subset", "not_accept", [i \in 1..Cardinality(T) |-> ValueMove(SortTuples(T)[i], IF i = 1 THEN "plus" ELSE "plus2")]) :
      T \in Subsets2(K)}
  \* cancelling errors: +a on one claim, -a on another (same point or different points)
  \cup {Plan("cancel", "not_accept", <<ValueMove(kk[1], "plus"), ValueMove(kk[2], "minus")>>) :
          kk \in {x \in K \X K : x[1] # x[2]}}
  \* proof lists permuted / duplicated / truncated / extended
  \cup {Plan("list", "not_accept", <<M(kd)>>) :
          kd \in {"list_empty", "list_trunc", "list_extend"} \cup
                 (IF Cardinality(PLs(st.qs)) >= 2 /\ StrongLabels # {} THEN {"list_swap", "list_dup"} ELSE {})}
  \cup {Plan("honest", "accept", <<>>)}
  \* IPA: a final commitment key solved from the succinct part of the relation for a false value, in every
  \* group in turn (the per-point check does the final-key check itself; the batch must not lose it)
  \cup (IF S = "ipa"
        THEN {Plan("forge_key", "not_accept",
                   <<ValueMove(<<GroupsOfStmt(st)[g].labels[1], GroupsOfStmt(st)[g].pt>>, "plus"), ProofMut(g, "forge_ipa_key", 0)>>) :
                g \in DOMAIN GroupsOfStmt(st)}
        ELSE {})
  \* errors weighted with the opening challenges (which depend on the sponge state only, so the party that
  \* transports the statement can compute them): xi_a * e_a + xi_b * e_b = 0 for claims of two DIFFERENT
  \* query points.  Only the verifier's own per-point randomizers separate the two equations.
  \cup (IF S \in {"marlin", "sonic", "pst13"}
        THEN {Plan("cancel_weighted", "not_accept",
                   <<[M("value_weighted") EXCEPT !.l = WKey(st, c[1], c[2])[1], !.pt = WKey(st, c[1], c[2])[2],
                                                 !.l2 = WKey(st, c[3], c[4])[1], !.pt2 = WKey(st, c[3], c[4])[2],
                                                 !.k = SqIndex(st, c[1], c[2]), !.d = SqIndex(st, c[3], c[4])]>>) :
                c \in WeightedCands(st)}
        ELSE {})
  \cup CompensatePlans(st)
  \cup RepointPlans(st, {"plus"})
  \cup ExtraRoundPlans(st)

\* combinations with two distinct polynomials of non-zero coefficient, queried somewhere
KeepSumCands(st) == {c \in (DOMAIN st.lcs) \X st.qs :
                        /\ c[2][1] = st.lcs[c[1]].l
                        /\ Cardinality({x \in LcLabels(st.lcs[c[1]]) : LcForm(st.lcs[c[1]], L)[x] # 0}) >= 2}
LcMove(kind, e, k) == [M(kind) EXCEPT !.l = e, !.k = k]
PlansC06(st) ==
  {Plan("value", "not_accept", <<ValueMove(key, "plus")>>) : key \in ClaimKeys(st)}
  \cup {Plan("coeff", "not_accept", <<LcMove("lc_coeff", st.lcs[ji[1]].l, ji[2] - 1)>>) :
          ji \in {x \in (DOMAIN st.lcs) \X (1..3) :
                    x[2] \in PolyTerms(st.lcs[x[1]]) /\ st.lcs[x[1]].terms[x[2]][2] \in NonConstLabels}}
  \cup {Plan("const", "not_accept", <<LcMove("lc_const", st.lcs[j].l, 0)>>) : j \in DOMAIN st.lcs}
  \cup (IF LCImpl(S) = "default" /\ st.tevals # <<>>
        THEN {Plan("evals", "not_accept", <<M("lc_evals")>>)}
             \cup (IF KeepSumCands(st) # {} THEN {Plan("evals_keep_sum", "not_accept", <<M("lc_evals_keep_sum")>>)} ELSE {})
        ELSE {})
  \cup {Plan("honest", "accept", <<>>)}

\* C10: every verifier-visible component replaced by another valid element of its type; the
\* harness compares the library's decision with an independent implementation of the relation
VkComponents ==
  CASE S \in {"marlin", "sonic", "pst13"} -> {"g", "gamma_g", "h", "beta_h", "shift"}
    [] S = "ipa" -> {"g", "h", "s", "shift"}
    [] S = "hyrax" -> {"g", "h", "shift"}
    [] OTHER -> {}
PlansC10(st) ==
  {Plan("honest", "ref", <<>>)}
  \cup {Plan("c:value", "ref", <<ValueMove(key, "plus")>>) : key \in ClaimKeys(st)}
  \* (linear codes: a group of constants only is bound to the point through 4 column positions out of 4 --
  \*  the 4^-4 corner described at StrongLabels -- and is left out)
  \cup {Plan("c:point", "ref", <<[M("point") EXCEPT !.pl = g.pl, !.pt2 = FreshPt]>>) :
          g \in {x \in RangeOf(GroupsOfStmt(st)) : ~LinCode(S) \/ \E j \in DOMAIN x.labels : x.labels[j] \in NonConstLabels}}
  \cup {Plan("c:commitment", "ref", <<[M(lk[2]) EXCEPT !.l = lk[1]]>>) :
          lk \in {x \in L \X {"random_comm", "random_shifted"} :
                    x[2] = "random_shifted" => (BoundOf(polys[x[1]]) # NONE /\ S # "sonic")}}
  \cup {Plan("c:bound", "ref", <<[M("relabel_bound") EXCEPT !.l = ld[1], !.d = ld[2]]>>) :
          \* every other label, enforced or not (an unsupported label is not part of any relation: reject)
          ld \in {x \in L \X ((IF S = "ipa" THEN BoundSet(keys) ELSE 1..pp.maxdeg) \cup BoundSet(keys) \cup {NONE}) :
                    EnforcesBounds(S) /\ ~SameBound(x[2], BoundOf(polys[x[1]])) /\ polys[x[1]].cls # "zero"}}
  \cup {Plan("c:proof", "ref", <<ProofMut(g, c, 0)>>) : g \in DOMAIN prs[1], c \in Components}
  \* ... and in the LAST polynomial's proof entry (Hyrax, linear codes: one entry per polynomial of the group)
  \cup {Plan("c:proof", "ref", <<ProofMut(g, c, 1)>>) :
          g \in {x \in DOMAIN prs[1] : (S = "hyrax" \/ LinCode(S)) /\ prs[1][x].n >= 2}, c \in Components}
  \* (an unblinded constant or zero polynomial has commitment v G resp. 0 and witness 0: both sides of
  \*  every pairing equation are the identity whatever the key, so key elements only matter when some
  \*  polynomial of the statement contributes)
  \cup {Plan("c:vk", "ref", <<[M("vk_mut") EXCEPT !.comp = c]>>) :
          c \in {x \in VkComponents : \A g \in RangeOf(GroupsOfStmt(st)) : \E j \in DOMAIN g.labels : g.labels[j] \in ContribLabels}}

PlansC11 ==
  {Plan("honest", "accept", <<>>)}
  \cup (IF StrongLabels # {} THEN {Plan("perturb", "not_accept", <<[M("sponge_perturb") EXCEPT !.op = o]>>) : o \in 1..Len(ops)} ELSE {})
  \cup {Plan("swap_ops", "not_accept", <<[M("swap_ops") EXCEPT !.op = ij[1], !.k = ij[2]]>>) :
          ij \in {x \in (1..Len(ops)) \X (1..Len(ops)) :
                    x[2] > x[1] /\ ops[x[2]].kind = ops[x[1]].kind /\ ops[x[2]].kind # "lc"
                    /\ ops[x[2]] # ops[x[1]] /\ NonConstLabels # {}}}

\* C17: statements whose labels / evaluations cannot be looked up never verify
PlansC17(st) ==
  {Plan("honest", "accept", <<>>)}
  \* a commitment shown with a degree bound the keys were not trimmed for: an error, never a verification result
  \cup (IF S \in {"marlin", "sonic"}
        THEN {Plan("unsupported_label", "not_accept", <<[M("relabel_bound") EXCEPT !.l = ld[1], !.d = ld[2]]>>) :
                ld \in {x \in {l \in L : BoundOf(polys[l]) # NONE} \X (1..pp.maxdeg) : x[2] \notin BoundSet(keys)}}
        ELSE {})
  \cup (IF st.kind \in {"batch", "lc"}
        THEN {Plan("missing_eval", "not_accept", <<[M("missing_eval") EXCEPT !.l = key[1], !.pt = key[2]]>>) : key \in ClaimKeys(st)}
        ELSE {})
  \cup RepointPlans(st, {"plus", "true"})
  \cup (IF st.kind = "batch"
        THEN {Plan("unknown_query", "not_accept", <<[M("unknown_query") EXCEPT !.l = UnknownLabel, !.pl = 1, !.pt = 1]>>)}
             \cup {Plan("drop_commitment", "not_accept", <<[M("drop_commitment") EXCEPT !.l = q[1]]>>) : q \in st.qs}
        ELSE {})

\* round trips: <<artefact, mode>>, mode = 2 * compress + validate
Artefacts == <<"pp", "ck", "vk", "comm", "state", "proof">>
SerChoices ==
  IF Mode # "C12" THEN {<<>>}
  ELSE {<< <<Artefacts[a], m>> >> : a \in DOMAIN Artefacts, m \in 0..3}
       \cup {[a \in DOMAIN Artefacts |-> <<Artefacts[a], m>>] : m \in 0..3}

AdvPlans ==
  LET st == stmts[1] IN
  CASE Mode = "C01" -> {Plan("honest", "accept", <<>>)}
    [] Mode = "C02" -> PlansC02(st)
    [] Mode = "C03" -> PlansC03(st)
    [] Mode = "C04" -> PlansC04(st) \cup {Plan("honest", "accept", <<>>)}
    [] Mode = "C05" -> PlansC05(st)
    [] Mode = "C06" -> PlansC06(st)
    [] Mode = "C11" -> PlansC11
    [] Mode = "C10" -> PlansC10(st)
    [] Mode = "C12" -> {Plan("honest", "accept", <<>>), Plan("value", "not_accept", <<FalseValue(st)>>)}
    [] Mode = "C17" -> PlansC17(st)
    [] OTHER -> {Plan("honest", "accept", <<>>)}

\* --------------------------------------------------------------------------
\* applying moves to (statements, proofs, verifier-sponge prefix)
StaleDelta(l) == IF polys[l].cls \in {"zero", "const"} THEN 0 ELSE 1

ApplyToStmt(st, m) ==
  CASE m.kind \in {"missing_eval", "unknown_query", "drop_commitment"} -> [st EXCEPT !.lookup = m.kind]
    [] m.kind = "value" ->
         [st EXCEPT !.deltas[<<m.l, m.pt>>] = @ + (CASE m.pat = "minus" -> -1 [] m.pat = "plus2" -> 2 [] OTHER -> 1)]
    [] m.kind \in {"value_other", "value_at"} -> [st EXCEPT !.deltas[<<m.l, m.pt>>] = 1]
    [] m.kind = "value_weighted" -> [st EXCEPT !.deltas[<<m.l, m.pt>>] = @ + 1, !.deltas[<<m.l2, m.pt2>>] = @ - 1]
    [] m.kind = "compensate" -> [st EXCEPT !.deltas[<<m.l, m.pt>>] = @ + 1]
    [] m.kind = "point" ->
         IF st.kind = "open"
         THEN [st EXCEPT !.pt = m.pt2,
                         !.deltas = [key \in {<<l, m.pt2>> : l \in RangeOf(st.labels)} |-> StaleDelta(key[1])]]
         ELSE LET moved == {q \in st.qs : q[2] = m.pl}
                  nqs == (st.qs \ moved) \cup {<<q[1], q[2], m.pt2>> : q \in moved}
              IN [st EXCEPT !.qs = nqs,
                            !.deltas = [key \in EvalKeys(nqs) |->
                                          IF key[2] = m.pt2 THEN StaleDelta(key[1]) ELSE st.deltas[key]]]
    [] m.kind = "repoint_query" ->
         LET nqs == (st.qs \ {<<m.l, m.pl, m.pt>>}) \cup {<<m.l, m.pl, m.pt2>>}
         IN [st EXCEPT !.qs = nqs,
                       !.deltas = [key \in EvalKeys(nqs) |->
                                     IF key = <<m.l, m.pt2>> THEN (IF m.pat = "plus" THEN 1 ELSE 0) ELSE st.deltas[key]],
                       !.lookup = IF WellFormedQs(nqs) THEN @ ELSE "ambiguous_label"]
    [] m.kind = "comm_swap" -> [st EXCEPT !.comms[m.l].src = 100 + m.l]
    [] m.kind = "relabel_bound" -> [st EXCEPT !.comms[m.l].lbound = m.d]
    [] m.kind = "drop_shifted" -> [st EXCEPT !.comms[m.l].shifted = "dropped", !.comms[m.l].lbound = NONE]
    [] m.kind = "drop_shifted_keep_label" -> [st EXCEPT !.comms[m.l].shifted = "dropped"]
    [] m.kind = "random_shifted" -> [st EXCEPT !.comms[m.l].shifted = "random"]
    [] m.kind = "foreign_shifted" -> [st EXCEPT !.comms[m.l].shifted = "foreign"]
    [] m.kind = "random_comm" -> [st EXCEPT !.comms[m.l].plain = "random"]
    [] m.kind = "sponge_perturb" -> [st EXCEPT !.pre = <<AB(99, 0, 0, 0)>>]
    [] m.kind = "vk_mut" -> [st EXCEPT !.vkmut = m.comp]
    [] m.kind = "proof_mut" /\ m.comp \in ForgeKinds \cup {"wlen_forged"} ->
         [st EXCEPT !.deltas[FirstKey(st)] = 1]
    \* (the false value belongs to the first polynomial of the first group)
    [] m.kind = "proof_mut" /\ m.comp = "forge_extra_round" ->
         [st EXCEPT !.deltas[<<GroupsOfStmt(st)[1].labels[1], GroupsOfStmt(st)[1].pt>>] = 1]
    [] m.kind = "lc_coeff" ->
         LET j == LcByLabel(st.lcs, m.l) IN [st EXCEPT !.lcs[j].terms[m.k + 1][1] = @ + 1]
    [] m.kind = "lc_const" ->
         LET j == LcByLabel(st.lcs, m.l)
             ones == {i \in DOMAIN st.lcs[j].terms : st.lcs[j].terms[i][2] = 0}
         IN IF ones = {} THEN [st EXCEPT !.lcs[j].terms = Append(@, <<1, 0>>)]
            ELSE [st EXCEPT !.lcs[j].terms[MinOf(ones)][1] = @ + 1]
    [] m.kind = "lc_evals" -> [st EXCEPT !.tevals[1].delta = 1]
    [] m.kind = "lc_evals_keep_sum" ->
         \* two transmitted evaluations of one combination at one point changed so that its value is kept
         LET cands == KeepSumCands(st)
         IN IF cands = {} THEN st
            ELSE LET c == CHOOSE x \in cands : TRUE
                     lc == st.lcs[c[1]]
                     ls == SortInts({x \in LcLabels(lc) : LcForm(lc, L)[x] # 0})
                     i0 == CHOOSE i \in DOMAIN st.tevals : st.tevals[i].key = <<ls[1], c[2][3]>>
                     i1 == CHOOSE i \in DOMAIN st.tevals : st.tevals[i].key = <<ls[2], c[2][3]>>
                 IN [st EXCEPT !.tevals[i0].delta = LcForm(lc, L)[ls[2]], !.tevals[i1].delta = -LcForm(lc, L)[ls[1]]]
    [] OTHER -> st

ApplyToProofs(ps, st, m) ==
  CASE m.kind = "proof_other_poly" ->
         [g \in DOMAIN ps |-> [ps[g] EXCEPT !.srcs = [j \in DOMAIN @ |-> IF @[j] = m.l THEN 100 + m.l ELSE @[j]]]]
    [] m.kind = "replay_other_point" ->
         [g \in DOMAIN ps |-> IF g = 1 THEN [ps[g] EXCEPT !.pt = m.pt2] ELSE ps[g]]
    [] m.kind = "proof_mut" ->
         LET g == m.l + 1
             \* Hyrax / linear codes: one proof entry per polynomial; replacements with k = 1 act on the last entry
             ent == IF S = "hyrax" \/ LinCode(S)
                    THEN (IF m.k = 1 /\ m.comp \in Components /\ g \in DOMAIN ps THEN ps[g].n ELSE 1)
                    ELSE 0
             nm == IF m.comp \in {"rounds_unequal"} THEN "rounds" ELSE IF m.comp = "wlen_forged" THEN "wlen" ELSE m.comp IN
         IF g \notin DOMAIN ps THEN ps
         ELSE IF m.comp = "inner_empty" THEN [ps EXCEPT ![g].n = 0]
         ELSE IF m.comp = "inner_trunc" THEN [ps EXCEPT ![g].n = @ - 1]
         ELSE [ps EXCEPT ![g].muts = @ \cup {<<ent, nm>>}]
    [] m.kind = "compensate" -> [g \in DOMAIN ps |-> IF g <= 2 THEN [ps[g] EXCEPT !.muts = @ \cup {<<0, "shift_w">>}] ELSE ps[g]]
    [] m.kind = "list_empty" -> <<>>
    [] m.kind = "list_trunc" -> SubSeq(ps, 1, Len(ps) - 1)
    [] m.kind = "list_extend" -> Append(ps, ps[Len(ps)])
    [] m.kind = "list_swap" -> [g \in DOMAIN ps |-> IF g = 1 THEN ps[2] ELSE IF g = 2 THEN ps[1] ELSE ps[g]]
    [] m.kind = "list_dup" -> [g \in DOMAIN ps |-> IF g = 2 THEN ps[1] ELSE ps[g]]
    [] OTHER -> ps

RECURSIVE ApplyMoves(_, _, _, _)
ApplyMoves(ss, pss, moves, i) ==
  IF i > Len(moves) THEN [stmts |-> ss, prs |-> pss]
  ELSE LET m == moves[i] o == m.op IN
       IF m.kind = "swap_ops"
       THEN ApplyMoves(ss, [pss EXCEPT ![m.op] = pss[m.k], ![m.k] = pss[m.op]], moves, i + 1)
       ELSE ApplyMoves([ss EXCEPT ![o] = ApplyToStmt(ss[o], m)],
                       [pss EXCEPT ![o] = ApplyToProofs(pss[o], ss[o], m)], moves, i + 1)

\* --------------------------------------------------------------------------
\* the verifier on one operation
ContribMap ==
  [src \in (1..MaxPolys) \cup (101..(100 + MaxPolys)) \cup (1001..1003) \cup (2001..2003) |->
     IF src <= MaxPolys THEN Contributing(polys[src])
     ELSE IF src <= 100 + MaxPolys THEN Contributing(polys[src - 100])
     ELSE TRUE]

VGroup(st, gr, comms) ==
  [clist |-> [j \in DOMAIN gr.labels |-> comms[gr.labels[j]]],
   deltas |-> [j \in DOMAIN gr.labels |-> st.deltas[<<gr.labels[j], gr.pt>>]],
   pt |-> gr.pt]

\* homomorphic LC path: the verifier's derived commitment and adjusted claim per combination
LcBoundV(st, lc) ==
  LET bounded == {i \in PolyTerms(lc) : st.comms[lc.terms[i][2]].lbound # NONE} IN
  IF bounded = {} THEN [cls |-> "ok", bound |-> NONE]
  ELSE IF Len(lc.terms) = 1
       THEN (IF lc.terms[1][1] = 1 THEN [cls |-> "ok", bound |-> st.comms[lc.terms[1][2]].lbound]
             ELSE [cls |-> "panic", bound |-> NONE])
       ELSE [cls |-> "err", bound |-> NONE]

LcCommV(st, e) ==
  LET lc == st.lcs[LcByLabel(st.lcs, e)]
      olc == st.olcs[LcByLabel(st.olcs, e)]
      same == /\ LcForm(lc, L) = LcForm(olc, L)
              /\ \A l \in LcLabels(lc) : LcForm(lc, L)[l] # 0 => (st.comms[l].src = l /\ st.comms[l].plain = "own")
      single == Len(lc.terms) = 1 /\ lc.terms[1][2] # 0
      one == IF single THEN st.comms[lc.terms[1][2]] ELSE st.comms[1]
  IN [l |-> e, src |-> IF same THEN 1000 + e ELSE 2000 + e,
      bound |-> IF single THEN one.bound ELSE NONE,
      lbound |-> LcBoundV(st, lc).bound,
      shifted |-> IF single /\ S \in {"marlin", "ipa"} THEN one.shifted ELSE "none",
      plain |-> "own"]

LcDeltaV(st, e, pt) ==
  LET lc == st.lcs[LcByLabel(st.lcs, e)]
      olc == st.olcs[LcByLabel(st.olcs, e)]
  IN st.deltas[<<e, pt>>] + (LcConst(olc) - LcConst(lc))

\* default LC path: re-association of the transmitted evaluations and the linear checks
DefaultLcCheck(st) ==
  LET pqs == LcPolyQs(st.lcs, st.qs)
      vkeys == VerifierEvalKeys(pqs)
      n == MinI(Len(vkeys), Len(st.tevals))
      idx(key) == AssocIndex(vkeys, n, key)
      missing == \E q \in st.qs : HasLc(st.lcs, q[1]) /\
                   \E i \in PolyTerms(st.lcs[LcByLabel(st.lcs, q[1])]) :
                      idx(<<st.lcs[LcByLabel(st.lcs, q[1])].terms[i][2], q[3]>>) = 0
      \* formal linear check of one queried combination: coefficients over the true evaluations
      \* p_l(pt) and the total planted error must agree on both sides
      lhsForm(q) == LET olc == st.olcs[LcByLabel(st.olcs, q[1])] IN
                    [key \in EvalKeys(LcPolyQs(st.olcs, st.qs)) \cup EvalKeys(pqs) |->
                        IF key[2] = q[3] /\ key[1] \in LcLabels(olc) THEN LcForm(olc, L)[key[1]] ELSE 0]
      rhsForm(q) == LET lc == st.lcs[LcByLabel(st.lcs, q[1])] IN
                    [key \in EvalKeys(LcPolyQs(st.olcs, st.qs)) \cup EvalKeys(pqs) |->
                        LET is == {i \in PolyTerms(lc) : st.tevals[idx(<<lc.terms[i][2], q[3]>>)].key = key} IN
                        IF is = {} THEN 0 ELSE SumSel(lc.terms, is)]
      lhsErr(q) == st.deltas[<<q[1], q[3]>>] + LcConst(st.olcs[LcByLabel(st.olcs, q[1])])
      rhsErr(q) == LET lc == st.lcs[LcByLabel(st.lcs, q[1])] IN
                   LcConst(lc) + SumErr(lc.terms, [i \in DOMAIN lc.terms |->
                        IF lc.terms[i][2] = 0 THEN 0 ELSE st.tevals[idx(<<lc.terms[i][2], q[3]>>)].delta])
      lcOK == \A q \in {x \in st.qs : HasLc(st.lcs, x[1])} : lhsForm(q) = rhsForm(q) /\ lhsErr(q) = rhsErr(q)
      \* the statement handed to batch_check: the associated evaluations as claims
      pdeltas == [key \in EvalKeys(pqs) |->
                    LET t == st.tevals[idx(key)] IN IF t.key = key THEN t.delta ELSE 1]
  IN [missing |-> missing, lcOK |-> IF missing THEN FALSE ELSE lcOK,
      pst |-> [st EXCEPT !.qs = pqs, !.deltas = IF missing THEN [key \in EvalKeys(pqs) |-> 0] ELSE pdeltas]]

\* is the replaced verifier-key element mentioned by the relation of this statement?
VkUsed(st) ==
  LET labs == IF st.kind = "open" THEN RangeOf(st.labels) ELSE {q[1] : q \in st.qs}
      hiding == \E l \in labs \cap L : polys[l].hid # NONE /\ HonoursHiding(S)
      bounded == \E l \in labs \cap L : st.comms[l].lbound # NONE
  IN CASE st.vkmut = "" -> FALSE
       \* PST13: beta_0 H is paired with the witness of the FIRST variable, which is the identity for a polynomial
       \* that does not depend on that variable
       \* (the blinding polynomial of a hiding commitment has terms in every variable)
       [] st.vkmut = "beta_h" /\ S = "pst13" ->
            \E l \in labs \cap L : polys[l].cls \notin {"zero", "const", "unilast"} \/ polys[l].hid # NONE
       [] st.vkmut = "gamma_g" -> hiding
       [] st.vkmut = "s" -> hiding
       \* the harness replaces the shift element of the LARGEST enforced bound
       [] st.vkmut = "shift" /\ S \in {"marlin", "sonic"} ->
            BoundSet(keys) # {} /\ \E l \in labs \cap L : st.comms[l].lbound = MaxOf(BoundSet(keys))
                                                     \* Marlin: the shift power multiplies the VALUE (zero for the zero
                                                     \* polynomial); Sonic: the G2 element is paired with the COMMITMENT
                                                     \* (the identity only for the unblinded zero polynomial)
                                                     /\ (polys[l].cls # "zero" \/ (S = "sonic" /\ polys[l].hid # NONE))
       [] OTHER -> TRUE

CheckOp(st, ps, sp0) ==
  LET sp == sp0 \o st.pre IN
  CASE st.lookup \notin {"", "ambiguous_label"} ->
         [res |-> "err", sp |-> sp, singles |-> "na"]     \* MissingPolynomial / MissingEvaluation
    \* groups keyed by the point label alone: the point of a label is the first one seen; an evaluation missing at
    \* that point is an error, and the claims at the other points of the label are never looked at
    [] st.lookup = "ambiguous_label" /\ st.kind = "batch" /\ ~BatchGroupsByLabelAndPoint
         /\ (\E g \in DOMAIN Groups(st.qs) : \E j \in DOMAIN Groups(st.qs)[g].labels :
                <<Groups(st.qs)[g].labels[j], Groups(st.qs)[g].pt>> \notin DOMAIN st.deltas) ->
         [res |-> "err", sp |-> sp, singles |-> "na"]
    [] VkUsed(st) -> [res |-> "reject", sp |-> sp, singles |-> "na"]
    [] st.kind = "open" ->
         LET r == GroupCheck(S, keys, ContribMap, VGroup(st, GroupsOfStmt(st)[1], st.comms), ps[1], sp, "check")
         IN [res |-> r.res, sp |-> r.sp, singles |-> "na"]
    [] st.kind = "batch" ->
         LET grs == Groups(st.qs)
             vgs == [g \in DOMAIN grs |-> VGroup(st, grs[g], st.comms)]
             r == BatchCheck(S, keys, ContribMap, vgs, ps, sp)
         IN [res |-> r.res, sp |-> r.sp,
             singles |-> IF Len(vgs) = Len(ps) THEN SinglesAnd(S, keys, ContribMap, vgs, ps, sp) ELSE "na"]
    [] st.kind = "lc" /\ LCImpl(S) = "default" ->
         LET d == DefaultLcCheck(st) IN
         IF d.missing THEN [res |-> "err", sp |-> sp, singles |-> "na"]
         ELSE IF ~d.lcOK THEN [res |-> "reject", sp |-> sp, singles |-> "na"]
         ELSE LET grs == Groups(d.pst.qs)
                  vgs == [g \in DOMAIN grs |-> VGroup(d.pst, grs[g], st.comms)]
                  r == BatchCheck(S, keys, ContribMap, vgs, ps, sp)
              IN [res |-> r.res, sp |-> r.sp, singles |-> "na"]
    [] OTHER ->     \* homomorphic LC path
         LET pol == {LcBoundV(st, st.lcs[j]).cls : j \in DOMAIN st.lcs} IN
         IF "panic" \in pol THEN [res |-> "panic", sp |-> sp, singles |-> "na"]
         ELSE IF "err" \in pol THEN [res |-> "err", sp |-> sp, singles |-> "na"]
         ELSE LET E == {st.lcs[j].l : j \in DOMAIN st.lcs}
                  comms == [e \in E |-> LcCommV(st, e)]
                  grs == Groups(st.qs)
                  vgs == [g \in DOMAIN grs |->
                            [clist |-> [j \in DOMAIN grs[g].labels |-> comms[grs[g].labels[j]]],
                             deltas |-> [j \in DOMAIN grs[g].labels |-> LcDeltaV(st, grs[g].labels[j], grs[g].pt)],
                             pt |-> grs[g].pt]]
                  r == BatchCheck(S, keys, ContribMap, vgs, ps, sp)
              IN [res |-> r.res, sp |-> r.sp, singles |-> "na"]

\* --------------------------------------------------------------------------
\* specification-level truth (never reads facts or guards)
ClaimsTrue(st) ==
  /\ \A key \in DOMAIN st.deltas :
        IF st.kind = "lc"
        THEN st.deltas[key] + LcConst(st.olcs[LcByLabel(st.olcs, key[1])]) - LcConst(st.lcs[LcByLabel(st.lcs, key[1])]) = 0
             /\ LcForm(st.lcs[LcByLabel(st.lcs, key[1])], L) = LcForm(st.olcs[LcByLabel(st.olcs, key[1])], L)
        ELSE st.deltas[key] = 0
  /\ \A l \in L : st.comms[l].src = l \/ ~Contributing(polys[l]) \/ l \notin {k[1] : k \in DOMAIN st.deltas}

\* --------------------------------------------------------------------------
Init ==
  /\ pc = "setup" /\ pp = [maxdeg |-> 0, nv |-> NONE, cls |-> "", wf |-> TRUE]
  /\ keys = [sup |-> 0, vsup |-> 0, hid |-> 0, nobounds |-> TRUE, bounds |-> <<>>, cls |-> "", maxdeg |-> 0, wf |-> TRUE]
  /\ polys = <<>> /\ rng = TRUE /\ ops = <<>> /\ prs = <<>> /\ spP = <<>> /\ spAfter = <<>>
  /\ stmts = <<>> /\ adv = <<>> /\ advname = "" /\ want = "" /\ spV = <<>> /\ outs = <<>> /\ ser = <<>>

Setup ==
  /\ pc = "setup"
  /\ \E md \in MaxDegs, nv \in Nvs, wf \in (IF LinCode(S) THEN WfSet ELSE {TRUE}) :
       LET c == SetupClass(S, md, nv) IN
       /\ pp' = [maxdeg |-> md, nv |-> nv, cls |-> c, wf |-> wf]
       /\ pc' = IF c = "ok" THEN "trim" ELSE "done"
  /\ UNCHANGED <<keys, polys, rng, ops, prs, spP, spAfter, stmts, adv, advname, want, spV, outs, ser>>

Trim ==
  /\ pc = "trim"
  /\ \E k \in KeySpace(pp.maxdeg) :
       LET c == TrimClass(S, pp.maxdeg, k) IN
       /\ HonestMode => c = "ok"
       \* C04: the verifier's key may come from another trim of the same parameters (other supported degree, same
       \* hiding bound and bound list).  Keys from the same parameters interoperate -- for IPA when both supported
       \* degrees round to the same 2^k - 1 -- so the abstract state is the same; the harness performs the second trim.
       /\ \E vs \in (IF Mode = "C04" /\ c = "ok" /\ S \in {"marlin", "sonic", "ipa"}
                      THEN {x \in SupSet : /\ TrimClass(S, pp.maxdeg, [k EXCEPT !.sup = x]) = "ok"
                                           /\ S = "ipa" => RoundIpa(x) = RoundIpa(k.sup)}
                      ELSE {k.sup}) :
            keys' = [sup |-> k.sup, vsup |-> vs, hid |-> k.hid, nobounds |-> k.nobounds, bounds |-> k.bounds, cls |-> c, wf |-> pp.wf,
                     maxdeg |-> EffMax(S, pp.maxdeg)]
       /\ pc' = IF c = "ok" THEN "commit" ELSE "done"
  /\ UNCHANGED <<pp, polys, rng, ops, prs, spP, spAfter, stmts, adv, advname, want, spV, outs, ser>>

RngChoices == IF Mode = "C17" THEN {TRUE, FALSE} ELSE {TRUE}

Commit ==
  /\ pc = "commit"
  /\ \E r \in RngChoices : \E ps \in PolyLists(keys, r) :
       /\ polys' = ps /\ rng' = r
       /\ pc' = IF Expect(CommitClass(S, pp.maxdeg, pp.nv, keys, ps, r)) = "ok"
                   /\ Predict(CommitClass(S, pp.maxdeg, pp.nv, keys, ps, r)) = "ok"
                THEN "open" ELSE "done"
  /\ UNCHANGED <<pp, keys, ops, prs, spP, spAfter, stmts, adv, advname, want, spV, outs, ser>>

Open ==
  /\ pc = "open"
  /\ Len(ops) < MaxOps
  /\ \E o \in OpSpaceP :
       LET c == OpenClassOf(o)
           r == Prove(o, spP, Len(ops) + 1) IN
       /\ ops' = Append(ops, [o EXCEPT !.labels = o.labels] @@ [cls |-> c])
       /\ IF c = "ok"
          THEN /\ prs' = Append(prs, r.prs) /\ spP' = r.sp
               /\ stmts' = Append(stmts, HonestStmt(o))
          ELSE /\ prs' = Append(prs, <<>>) /\ spP' = spP
               /\ stmts' = Append(stmts, HonestStmt(o))
       /\ spAfter' = Append(spAfter, IF c = "ok" THEN r.sp ELSE spP)
       /\ pc' = IF c # "ok" THEN "done" ELSE IF Len(ops) + 1 < MaxOps THEN "open" ELSE "adv"
  /\ UNCHANGED <<pp, keys, polys, rng, adv, advname, want, spV, outs, ser>>

Adv ==
  /\ pc = "adv"
  /\ \E plan \in AdvPlans :
       LET r == ApplyMoves(stmts, prs, plan.moves, 1) IN
       /\ adv' = plan.moves /\ advname' = plan.name /\ want' = plan.want
       /\ stmts' = r.stmts /\ prs' = r.prs
  \* C12: canonical-serialization round trips of artefacts may be interleaved anywhere; on the
  \* abstract state they are stuttering steps (nothing below reads `ser`), the harness performs them
  /\ \E sr \in SerChoices : ser' = sr
  /\ pc' = "check"
  /\ UNCHANGED <<pp, keys, polys, rng, ops, spP, spAfter, spV, outs>>

Check ==
  /\ pc = "check"
  /\ LET k == Len(outs) + 1
         r == CheckOp(stmts[k], prs[k], spV) IN
     /\ outs' = Append(outs, [res |-> r.res, singles |-> r.singles, lock |-> r.sp = spAfter[k],
                              true |-> ClaimsTrue(stmts[k]),
                              vsp |-> SubSeq(r.sp, Len(spV) + 1, Len(r.sp))])   \* the events of this call
     /\ spV' = r.sp
     /\ pc' = IF k = Len(ops) THEN "done" ELSE "check"
  /\ UNCHANGED <<pp, keys, polys, rng, ops, prs, spP, spAfter, stmts, adv, advname, want, ser>>

Next == Setup \/ Trim \/ Commit \/ Open \/ Adv \/ Check

Spec == Init /\ [][Next]_vars

\* --------------------------------------------------------------------------
\* invariants (the properties, on the faithful model)
Done == pc = "done"
Checked == Done /\ Len(outs) = Len(ops) /\ Len(ops) > 0
IsExcused == <<S, advname>> \in Excused

\* C01: honest proofs of true claims are accepted
C01_HonestAccepted == Checked /\ adv = <<>> => \A k \in DOMAIN outs : outs[k].res = "accept"
\* C11: after every matched open/check pair the two sponges are equal
C11_LockStep == Checked /\ adv = <<>> => \A k \in DOMAIN outs : outs[k].lock
\* C02/C03: acceptance implies that what the verifier was shown is true
NoFalseAccept == Checked /\ ~IsExcused => \A k \in DOMAIN outs : outs[k].res = "accept" => outs[k].true
\* what the property demands of the perturbed statement (op 1 carries single-op moves; for
\* histories every op touched by the plan)
TouchedOps == IF adv = <<>> THEN DOMAIN outs
              ELSE {adv[i].op : i \in DOMAIN adv} \cup {adv[i].k : i \in {j \in DOMAIN adv : adv[j].kind = "swap_ops"}}
WantHolds == Checked /\ ~IsExcused =>
               CASE want = "accept" -> \A k \in DOMAIN outs : outs[k].res = "accept"
                 [] want = "not_accept" -> \E k \in TouchedOps : outs[k].res # "accept"
                 [] OTHER -> TRUE
\* C03: no unguarded proof shape is left for which the model cannot decide
NoUnknownShape == Checked /\ ~IsExcused => \A k \in DOMAIN outs : outs[k].res # "unknown"
\* C05: the batch decision is the AND of the single decisions where both are defined
BatchIsAndOfSingles == Checked /\ ~IsExcused =>
   \A k \in DOMAIN outs : outs[k].singles # "na" => ((outs[k].res = "accept") <=> (outs[k].singles = "accept"))

TypeOK == pc \in {"setup", "trim", "commit", "open", "adv", "check", "done"}

\* --------------------------------------------------------------------------
\* behaviours for the harness: one JSON object per terminal state
EventShape(e) == IF e[1] = 1 THEN (IF Len(e) = 1 THEN "S" ELSE "F") ELSE IF e[1] = 2 THEN "A" ELSE "I"
ShapeOf(ev) == [i \in DOMAIN ev |-> EventShape(ev[i])]
\* the hiding-bound-of-zero refusal is C17's business only; elsewhere the statement is silent
ExpClass(c) == IF c = "zero_hid" /\ Mode # "C17" THEN "any" ELSE Expect(c)
RevOrder == [i \in 1..MaxPolys |-> MaxPolys + 1 - i]
OpJson(o) == [kind |-> o.kind, labels |-> o.labels, pt |-> o.pt,
              qs |-> SortTuples(o.qs), lcs |-> o.lcs,
              obound |-> o.obound,
              pperm |-> IF o.perm \in {1, 3} THEN RevOrder ELSE <<>>,
              vperm |-> IF o.perm \in {2, 3} THEN RevOrder ELSE <<>>]
Behaviour ==
  [prop |-> Mode, scheme |-> S, tag |-> advname,
   max_degree |-> pp.maxdeg, num_vars |-> pp.nv, wf |-> pp.wf,
   supported |-> keys.sup, vsupported |-> keys.vsup, hiding |-> keys.hid, bounds |-> keys.bounds, nobounds |-> keys.nobounds,
   polys |-> polys, rng |-> rng,
   note |-> IF polys # <<>> /\ CommitClass(S, pp.maxdeg, pp.nv, keys, polys, rng) = "zero_hid" THEN "hiding_zero_only" ELSE "",
   ops |-> [k \in DOMAIN ops |-> OpJson(ops[k])],
   adv |-> adv, ser |-> ser,
   model |-> [k \in DOMAIN outs |-> [res |-> outs[k].res, singles |-> outs[k].singles, lock |-> outs[k].lock,
                                     \* the two schedules of Transcript.tla, for comparison with the logged sponge calls
                                     spp |-> ShapeOf(SubSeq(spAfter[k], (IF k = 1 THEN 0 ELSE Len(spAfter[k - 1])) + 1, Len(spAfter[k]))),
                                     spv |-> ShapeOf(outs[k].vsp)]],
   expect |-> [setup |-> ExpClass(pp.cls),
               trim |-> IF keys.cls = "" THEN "any" ELSE ExpClass(keys.cls),
               commit |-> IF polys = <<>> THEN "any" ELSE ExpClass(CommitClass(S, pp.maxdeg, pp.nv, keys, polys, rng)),
               ops |-> [k \in DOMAIN ops |->
                          [open |-> ExpClass(ops[k].cls),
                           check |-> IF Mode = "C10" THEN "ref" ELSE IF Mode = "C12"    \* same decision as without the round trips: the model's
                                     THEN (IF k \notin DOMAIN outs THEN "any"
                                           ELSE IF outs[k].res = "accept" THEN "accept" ELSE "not_accept")
                                     ELSE IF want = "accept" \/ adv = <<>> THEN "accept"
                                     \* a crafted proof comes with the value IT proves, which is the true one for
                                     \* degenerate polynomials (zero, constants): the harness evaluates falsity
                                     ELSE IF advname = "forge" THEN "not_accept_if_false"
                                     ELSE IF k \in TouchedOps /\ Cardinality(TouchedOps) = 1 THEN "not_accept"
                                     ELSE "any",
                           lockstep |-> IF adv = <<>> THEN "yes" ELSE "any"]]]]

EmitReplay == (Emit /\ Done) => PrintT(<<"REPLAY", ToJson(Behaviour)>>)

=============================================================================
