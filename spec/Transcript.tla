----------------------------- MODULE Transcript -----------------------------
(***************************************************************************)
(* The Fiat-Shamir sponge as a LOG: a sponge state is the sequence of       *)
(* events applied to it; a challenge IS the log prefix that produced it.    *)
(* Events are integer tuples (so that TLC can compare any two of them):     *)
(*   <<1>>                  squeeze one 128-bit challenge                   *)
(*   <<1, n>>               squeeze n full field elements (n >= 1)          *)
(*   <<2, tag, a, b, c>>    absorb an object identified by provenance       *)
(*   <<3, t>>               derive t column indices (squeeze bytes, absorb) *)
(* Per scheme the prover-side schedule (open) and the verifier-side         *)
(* schedule (check) are written separately, from the two code paths.        *)
(***************************************************************************)
EXTENDS QuerySets

SQ == <<1>>
SQN(n) == <<1, n>>
AB(tag, a, b, c) == <<2, tag, a, b, c>>
IDX(t) == <<3, t>>

TagCk == 1   TagCom == 2   TagPt == 3   TagEval == 4   TagD == 5   TagB == 6
TagRoot == 7 TagWf == 8    TagV == 9

RECURSIVE Flatten(_)
Flatten(ss) == IF ss = <<>> THEN <<>> ELSE Head(ss) \o Flatten(Tail(ss))

Rep(e, n) == [i \in 1..n |-> e]

(***************************************************************************)
(* Challenge-only schemes.  `flags[i]` = polynomial / commitment i carries  *)
(* a degree bound (prover: the polynomial's; verifier: the LABEL's).        *)
(*   marlin : 1 per polynomial + 1 per degree bound                         *)
(*   pst13  : 1 per polynomial                                              *)
(*   sonic  : 1 + 1 per polynomial                                          *)
(*   ipa    : 1 + 2 per polynomial                                          *)
(***************************************************************************)
ChalEvents(s, flags) ==
  CASE s = "marlin" -> Flatten([i \in DOMAIN flags |-> IF flags[i] THEN <<SQ, SQ>> ELSE <<SQ>>])
    [] s = "pst13"  -> Rep(SQ, Len(flags))
    [] s = "sonic"  -> Rep(SQ, 1 + Len(flags))
    [] s = "ipa"    -> Rep(SQ, 1 + 2 * Len(flags))

\* index (within the call) of the squeeze that yields polynomial i's challenge
ChalIndex(s, flags, i) ==
  CASE s = "marlin" -> 1 + Cardinality({j \in 1..(i-1) : TRUE}) + Cardinality({j \in 1..(i-1) : flags[j]})
    [] s = "pst13"  -> i
    [] s = "sonic"  -> i
    [] s = "ipa"    -> 2 * i - 1

(***************************************************************************)
(* Hyrax, per polynomial: absorb key, row commitments, point, com_eval,     *)
(* com_d, com_b; squeeze 1.  `com` / `aux` are provenance ids.              *)
(***************************************************************************)
HyraxEntryEvents(com, pt, aux) ==
  << AB(TagCk, 0, 0, 0), AB(TagCom, com, 0, 0), AB(TagPt, pt, 0, 0),
     AB(TagEval, aux[1], aux[2], aux[3]), AB(TagD, aux[1], aux[2], aux[3]),
     AB(TagB, aux[1], aux[2], aux[3]), SQN(1) >>

(***************************************************************************)
(* Linear codes, per polynomial: absorb root; [squeeze n_rows, absorb r.M]; *)
(* absorb point; absorb b.M; t x (squeeze bytes, absorb them).              *)
(***************************************************************************)
LinEntryEvents(root, pt, wf, v, wellformed) ==
  << AB(TagRoot, root, 0, 0) >>
  \o (IF wellformed THEN << SQN(2), AB(TagWf, wf[1], wf[2], wf[3]) >> ELSE <<>>)
  \o << AB(TagPt, pt, 0, 0), AB(TagV, v[1], v[2], v[3]), IDX(1) >>

=============================================================================
