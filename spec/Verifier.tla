------------------------------ MODULE Verifier ------------------------------
(***************************************************************************)
(* Each scheme's verifier AS THE CODE RUNS IT, under the ideal-algebra      *)
(* abstraction: an artefact is represented by its provenance, and an        *)
(* algebraic relation between artefacts of independent provenance holds iff *)
(* it holds formally.  The model applies exactly the shape guards the code  *)
(* has (and only those -- see the code facts in Schemes.tla), reproduces    *)
(* `zip` truncation, threads the verifier's own sponge log through the      *)
(* groups, and answers                                                      *)
(*    "accept" | "reject" (Ok(false)) | "err" | "panic" | "unknown"         *)
(* where "unknown" marks a shape the code does not guard and for which the  *)
(* ideal-algebra predicate is not justified (a work order for the harness). *)
(*                                                                          *)
(* Records                                                                  *)
(*  commitment as presented  c  = [l, src, bound, lbound, shifted, plain]   *)
(*     src     integer identity of the committed polynomial                 *)
(*     bound   the degree bound the commitment was made under (NONE = none) *)
(*     lbound  the degree bound on the label shown to the verifier          *)
(*     shifted "none" | "own" | "dropped" | "foreign" | "random"            *)
(*     plain   "own" | "random"                                             *)
(*  proof of one `open` call pr = [n, srcs, bounds, pt, pre, op, g, muts]   *)
(*     pre     the prover's sponge log when the call started                *)
(*     muts    set of <<entry, name>> mutations (entry 0 = whole proof)     *)
(*  verifier group           vg = [clist, deltas, pt]                       *)
(*     deltas  per position, 0 = the claimed value is the true evaluation   *)
(***************************************************************************)
EXTENDS Transcript

HasMut(pr, j, name) == <<j, name>> \in pr.muts
EntryMutated(pr, j) == \E m \in pr.muts : m[1] = j
MinI(a, b) == IF a < b THEN a ELSE b

ShiftedPresent(c) == c.shifted \notin {"none", "dropped"}
ComId(c) == IF c.plain = "own" THEN c.src ELSE 200 + c.l

(***************************************************************************)
(* Challenge-based schemes: marlin, pst13, sonic, ipa.                      *)
(* contrib[src] = TRUE iff the polynomial contributes to the opening proof  *)
(* (non-constant, or blinded); a non-contributing polynomial only imposes   *)
(* "claimed value true".                                                    *)
(***************************************************************************)
ChalGroupCheck(s, keys, contrib, vg, pr, sp, entry) ==
  LET clist == vg.clist
      n == Len(clist)
      vflags == [i \in 1..n |-> clist[i].lbound # NONE]
      sp2 == sp \o ChalEvents(s, vflags)
      guard ==
        CASE s \in {"marlin", "pst13", "ipa"}
               /\ (\E i \in 1..n : (clist[i].lbound # NONE) # ShiftedPresent(clist[i])) -> "panic"
          [] s = "pst13" /\ (\E i \in 1..n : clist[i].lbound # NONE) -> "panic"
          [] s \in {"marlin", "sonic"}
               /\ (\E i \in 1..n : clist[i].lbound # NONE /\ clist[i].lbound \notin BoundSet(keys)) -> "err"
          [] s = "ipa" /\ (\E i \in 1..n : clist[i].lbound # NONE /\ clist[i].lbound > EffSup(s, keys)) -> "panic"
          [] s = "ipa" /\ (HasMut(pr, 0, "rounds") \/ HasMut(pr, 0, "forge_extra_round"))
               /\ (entry = "check" \/ IpaBatchGuardsRounds) -> "err"
          [] s = "ipa" /\ HasMut(pr, 0, "drop_hiding_comm") -> "panic"
          [] s = "pst13" /\ HasMut(pr, 0, "wlen") -> "panic"
          [] OTHER -> "none"
      anyContrib == \E i \in 1..pr.n : contrib[pr.srcs[i]]
      \* Sonic: a bound equal to max_degree shifts by zero (same artefact as "no bound")
      Norm(b) == IF s = "sonic" /\ b = keys.maxdeg THEN NONE ELSE b
      holds ==
        /\ pr.muts = {}
        /\ pr.n = n
        /\ \A i \in 1..n :
             /\ clist[i].src = pr.srcs[i]
             /\ clist[i].plain = "own"
             /\ Norm(clist[i].lbound) = Norm(pr.bounds[i])
             /\ Norm(clist[i].lbound) # NONE =>
                  (Norm(clist[i].bound) = Norm(clist[i].lbound) /\ (s = "sonic" \/ clist[i].shifted = "own"))
             /\ Norm(clist[i].lbound) = NONE => Norm(clist[i].bound) = NONE
             /\ vg.deltas[i] = 0
        /\ anyContrib => (vg.pt = pr.pt /\ sp = pr.pre)
        \* IPA: the point enters the round challenges and the final-key check even for the zero polynomial
        /\ s = "ipa" => vg.pt = pr.pt
      \* IPA batch_check has no round-count guard.  Rounds removed from / appended to an HONEST
      \* proof break the round-commitment equation of succinct_check (final key and c belong to the
      \* full folding), so the model answers "reject" (pr.muts # {}).  A proof genuinely produced
      \* with fewer rounds over a key prefix only exists for a polynomial of lower degree and then
      \* proves a true claim; no "unknown" outcome is left for this shape.
      unknown == FALSE
      \* one round more, produced by the library's own prover over the key padded with identity elements for the
      \* polynomial p + X^(d+1) b: every equation of the succinct check holds, and the final-key check only sees the
      \* coefficients the real key has room for
      forged == s = "ipa" /\ pr.muts = {<<0, "forge_extra_round">>} /\ pr.n = n
                /\ (\A i \in 1..n : clist[i].src = pr.srcs[i] /\ clist[i].plain = "own" /\ clist[i].lbound = NONE)
                /\ vg.pt = pr.pt /\ sp = pr.pre
  IN [res |-> IF guard # "none" THEN guard
              ELSE IF unknown THEN "unknown"
              ELSE IF holds \/ forged THEN "accept" ELSE "reject",
      sp |-> sp2]

(***************************************************************************)
(* Hyrax: zip(commitments, proof entries); per entry the absorbs, one       *)
(* squeeze, equation (14) then (13).  The claimed value enters iff          *)
(* UsesClaimedValue.                                                        *)
(***************************************************************************)
HyraxAux(pr, j) ==
  <<pr.op, pr.g, 10 * j + (IF \E m \in pr.muts : m[1] = j /\ m[2] \in {"replace:com_eval", "replace:com_d", "replace:com_b"}
                           THEN 1 ELSE 0)>>

HyraxGroupCheck(keys, vg, pr, sp) ==
  LET clist == vg.clist
      n == Len(clist)
      m == pr.n
      k == MinI(n, m)
      vEv(j) == HyraxEntryEvents(ComId(clist[j]), vg.pt, HyraxAux(pr, j))
      pEv(j) == HyraxEntryEvents(pr.srcs[j], pr.pt, <<pr.op, pr.g, 10 * j>>)
      prefixEq(j) == sp = pr.pre /\ \A i \in 1..j : vEv(i) = pEv(i)
      entryOk(j) == /\ prefixEq(j)
                    /\ ~EntryMutated(pr, j)
                    /\ UsesClaimedValue("hyrax") => vg.deltas[j] = 0
      guard == CASE HyraxProofCountGuard /\ n # m -> "err"
                 [] \E j \in 1..k : clist[j].shifted = "dropped" -> "err"
                 [] \E j \in 1..k : HasMut(pr, j, "zlen") -> "panic"
                 [] OTHER -> "none"
  IN [res |-> IF guard # "none" THEN guard
              ELSE IF \A j \in 1..k : entryOk(j) THEN "accept" ELSE "reject",
      sp |-> sp \o Flatten([i \in 1..k |-> vEv(i)])]

(***************************************************************************)
(* Ligero / Brakedown: per (commitment, value) pair the proof entry with    *)
(* the same index; t from the commitment; transcript; leaf indices; Merkle  *)
(* authentication (iff ChecksMerkleResult); column consistency with E(v)    *)
(* and E(v_wf); <v,a> = value.  The first entry that is not accepted        *)
(* decides.                                                                 *)
(***************************************************************************)
LinId(pr, j, names) ==
  <<pr.op, pr.g, 10 * j + (IF \E m \in pr.muts : m[1] = j /\ m[2] \in names THEN 1 ELSE 0)>>

LinGroupCheck(s, keys, vg, pr, sp) ==
  LET clist == vg.clist
      n == Len(clist)
      m == pr.n
      vEv(j) == LinEntryEvents(ComId(clist[j]), vg.pt,
                               LinId(pr, j, {"replace:wf0", "replace:wf_last"}),
                               LinId(pr, j, {"replace:v0", "replace:v_last", "v_trunc", "v_extend"}), keys.wf)
      pEv(j) == LinEntryEvents(pr.srcs[j], pr.pt, <<pr.op, pr.g, 10 * j>>, <<pr.op, pr.g, 10 * j>>, keys.wf)
      prefixEq(j) == sp = pr.pre /\ \A i \in 1..j : vEv(i) = pEv(i)
      entryRes(j) ==
        CASE j > m -> "panic"
          [] HasMut(pr, j, "drop_wf") -> "err"
          [] HasMut(pr, j, "forge_columns") -> IF ChecksMerkleResult(s) THEN "reject" ELSE "accept"
          [] HasMut(pr, j, "forge_stretch") -> IF GuardsOpeningVectorLength(s) THEN "err" ELSE "accept"
          [] HasMut(pr, j, "cols_trunc") \/ HasMut(pr, j, "forge_nocolumns") -> "panic"   \* columns[j] indexed for every derived position
          [] ~prefixEq(j) -> "err"
          [] HasMut(pr, j, "replace:path0") \/ HasMut(pr, j, "cols_repeat") \/ HasMut(pr, j, "cols_shift") -> "err"
          [] (HasMut(pr, j, "path_sibling") \/ HasMut(pr, j, "sibling:path_last") \/ HasMut(pr, j, "sibling:path_repeat")
              \/ HasMut(pr, j, "authpath:path_repeat")) /\ ChecksMerkleResult(s) -> "reject"
          [] HasMut(pr, j, "replace:col0") \/ HasMut(pr, j, "replace:col_last") -> "err"
          [] vg.deltas[j] # 0 -> "reject"
          [] OTHER -> "accept"
      bad == {j \in 1..n : entryRes(j) # "accept"}
      kmax == IF bad = {} THEN MinI(n, m) ELSE MinI(MinOf(bad), m)
  IN [res |-> IF bad = {} THEN "accept" ELSE entryRes(MinOf(bad)),
      sp |-> sp \o Flatten([i \in 1..kmax |-> vEv(i)])]

GroupCheck(s, keys, contrib, vg, pr, sp, entry) ==
  CASE s = "hyrax" -> HyraxGroupCheck(keys, vg, pr, sp)
    [] LinCode(s)  -> LinGroupCheck(s, keys, vg, pr, sp)
    [] OTHER       -> ChalGroupCheck(s, keys, contrib, vg, pr, sp, entry)

(***************************************************************************)
(* Batch verification: the groups in point-label order, proof k with group  *)
(* k.  The verifier's sponge is threaded through the groups in that order   *)
(* by every implementation.                                                 *)
(***************************************************************************)
RECURSIVE RunGroups(_, _, _, _, _, _, _, _)
RunGroups(s, keys, contrib, vgs, prs, sp, k, acc) ==
  IF k > MinI(Len(vgs), Len(prs)) THEN [res |-> acc, sp |-> sp]
  ELSE LET r == GroupCheck(s, keys, contrib, vgs[k], prs[k], sp, "batch")
       \* IPA returns false at the first group whose succinct check fails: the later groups never touch the sponge
       IN IF s = "ipa" /\ r.res # "accept" THEN [res |-> Append(acc, r.res), sp |-> r.sp]
          ELSE RunGroups(s, keys, contrib, vgs, prs, r.sp, k + 1, Append(acc, r.res))

Combine(results) ==
  LET R == RangeOf(results) IN
  IF "panic" \in R THEN "panic"
  ELSE IF "err" \in R THEN "err"
  ELSE IF "unknown" \in R THEN "unknown"
  ELSE IF "reject" \in R THEN "reject" ELSE "accept"

BatchCheck(s, keys, contrib, vgs, prs, sp) ==
  IF Len(vgs) # Len(prs) /\ ProofCountGuard(s) = "assert"
  THEN [res |-> "panic",
        \* Marlin and PST13 combine every group (squeezing its challenges) BEFORE they compare the counts;
        \* Sonic, IPA and the trait default compare first (learnt from the long histories of C11: the
        \* verifier's sponge after an aborted call)
        sp |-> IF s \in {"marlin", "pst13"}
               THEN sp \o Flatten([g \in DOMAIN vgs |->
                                     ChalEvents(s, [i \in DOMAIN vgs[g].clist |-> vgs[g].clist[i].lbound # NONE])])
               ELSE sp,
        singles |-> <<>>]
  ELSE LET r == RunGroups(s, keys, contrib, vgs, prs, sp, 1, <<>>)
       IN [res |-> Combine(r.res), sp |-> r.sp, singles |-> r.res]

\* the per-group single checks run one after the other on the same sponge: AND of singles
SinglesAnd(s, keys, contrib, vgs, prs, sp) ==
  LET r == RunGroups(s, keys, contrib, vgs, prs, sp, 1, <<>>) IN Combine(r.res)

=============================================================================
