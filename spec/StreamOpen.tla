----------------------------- MODULE StreamOpen -----------------------------
(***************************************************************************)
(* streaming_kzg::space: the space-efficient provers as state machines over *)
(* integers.                                                                *)
(*   open              Horner-style streaming quotient by (X - alpha)       *)
(*   open_multi_points streaming division by the vanishing polynomial Z of  *)
(*                     the point set, with its VecDeque of |points| pending *)
(*                     coefficients                                         *)
(* Coefficients arrive big-endian; each quotient coefficient is paired with *)
(* a power of the key stream after the `skip` the code computes.  TLC       *)
(* checks q * (X - alpha) + v = f,  q * Z + r = f  and that the paired key  *)
(* powers are the right ones, for every enumerated polynomial and point     *)
(* set, and prints (q, r, v) so that the harness can compare the real       *)
(* provers (time and space) on the same integers.                           *)
(***************************************************************************)
EXTENDS Naturals, Integers, Sequences, FiniteSets, TLC, Json

CONSTANTS Lens,          \* polynomial lengths (degree = length - 1)
          Patterns,      \* coefficient patterns, subset of 1..4
          PointSets,     \* set of point sequences (distinct small integers)
          KeyExtra,      \* the key has Len(f) + KeyExtra powers
          ShortHandled   \* code fact: Len(f) < |points| handled (FALSE: unwrap on an exhausted iterator)

VARIABLES f, pts, st, i, q, pw, phase, mode, prev

vars == <<f, pts, st, i, q, pw, phase, mode, prev>>

\* ---------------------------------------------------------------- polynomials (little-endian sequences)
ReverseSeq(s) == [k \in 1..Len(s) |-> s[Len(s) - k + 1]]
Coef(p, k) == IF k + 1 \in DOMAIN p THEN p[k + 1] ELSE 0          \* coefficient of X^k
PolyMul(a, b) ==
  IF a = <<>> \/ b = <<>> THEN <<>>
  ELSE [k \in 1..(Len(a) + Len(b) - 1) |->
          LET S == {j \in 1..Len(a) : k - j + 1 \in 1..Len(b)} IN
          LET RECURSIVE Sum(_) Sum(T) == IF T = {} THEN 0 ELSE LET j == CHOOSE x \in T : TRUE IN a[j] * b[k - j + 1] + Sum(T \ {j})
          IN Sum(S)]
PolyAdd(a, b) == [k \in 1..(IF Len(a) > Len(b) THEN Len(a) ELSE Len(b)) |-> Coef(a, k - 1) + Coef(b, k - 1)]
PolyEq(a, b) == \A k \in 0..(Len(a) + Len(b)) : Coef(a, k) = Coef(b, k)
RECURSIVE Vanishing(_)
Vanishing(ps) == IF ps = <<>> THEN <<1>> ELSE PolyMul(Vanishing(Tail(ps)), <<-Head(ps), 1>>)
EvalLE(p, x) ==
  LET RECURSIVE Ev(_) Ev(k) == IF k > Len(p) THEN 0 ELSE p[k] + x * Ev(k + 1) IN Ev(1)

\* the enumerated inputs, little-endian
Pattern(n, t) ==
  CASE t = 1 -> [k \in 1..n |-> k]                                   \* 1, 2, .., n
    [] t = 2 -> [k \in 1..n |-> IF k % 2 = 0 THEN -(k % 3) - 1 ELSE (k % 4) + 1]   \* mixed signs
    [] t = 3 -> [k \in 1..n |-> IF k = n THEN 1 ELSE 0]               \* X^(n-1)
    [] t = 4 -> [k \in 1..n |-> IF k = 1 THEN 0 ELSE k - 1]           \* zero constant term

\* ---------------------------------------------------------------- the machines
Init ==
  /\ \E n \in Lens, t \in Patterns : f = ReverseSeq(Pattern(n, t))      \* big-endian stream
  /\ pts \in PointSets
  /\ mode \in {"single", "multi"}
  /\ mode = "single" => Len(pts) = 1
  /\ st = <<>> /\ i = 1 /\ q = <<>> /\ pw = <<>> /\ phase = "start" /\ prev = 0

m == Len(pts)
Z == Vanishing(pts)
KeyLen == Len(f) + KeyExtra
\* the reversed key stream yields powers KeyLen-1, KeyLen-2, ..; after skipping s the first is KeyLen-1-s
FirstPow(skip) == KeyLen - 1 - skip

\* open_multi_points: fill the deque with the first |points| coefficients
Fill ==
  /\ phase = "start" /\ mode = "multi"
  /\ IF Len(f) < m
     THEN phase' = (IF ShortHandled THEN "short" ELSE "panic") /\ UNCHANGED <<st, i>>
     ELSE /\ st' = SubSeq(f, 1, m) /\ i' = m + 1 /\ phase' = "run"
  /\ UNCHANGED <<f, pts, q, pw, mode, prev>>

\* one iteration of the division loop
Step ==
  /\ phase = "run" /\ mode = "multi" /\ i <= Len(f)
  /\ LET qc == st[1]
         shifted == Append(Tail(st), f[i])
         \* state[k] -= zeros.coeffs[zeros.degree() - k - 1] * qc   (k 0-based)
         upd == [k \in 1..m |-> shifted[k] - Coef(Z, m - k) * qc]
     IN /\ st' = upd
        /\ q' = Append(q, qc)
        \* bases skip KeyLen - Len(f) + deg(Z): the j-th quotient coefficient meets power FirstPow - (j-1)
        /\ pw' = Append(pw, FirstPow(KeyLen - Len(f) + m) - Len(q))
  /\ i' = i + 1
  /\ UNCHANGED <<f, pts, phase, mode, prev>>

Finish ==
  /\ phase = "run" /\ i > Len(f) /\ phase' = "done"
  /\ UNCHANGED <<f, pts, st, i, q, pw, mode, prev>>

\* open: previous = 0; for each coefficient: pair (previous, next base); previous = previous*alpha + c
Single ==
  /\ mode = "single" /\ phase \in {"start", "run"} /\ i <= Len(f)
  /\ q' = Append(q, prev)
  /\ pw' = Append(pw, FirstPow(KeyLen - Len(f)) - Len(q))
  /\ prev' = prev * pts[1] + f[i]
  /\ i' = i + 1 /\ phase' = "run"
  /\ UNCHANGED <<f, pts, st, mode>>
SingleFinish ==
  /\ mode = "single" /\ phase \in {"start", "run"} /\ i > Len(f) /\ phase' = "done"
  /\ UNCHANGED <<f, pts, st, i, q, pw, mode, prev>>

Next == Fill \/ Step \/ Finish \/ Single \/ SingleFinish \/ (phase \in {"done", "panic", "short"} /\ UNCHANGED vars)
Spec == Init /\ [][Next]_vars

\* ---------------------------------------------------------------- correctness
fLE == ReverseSeq(f)
\* the committed quotient: sum of coefficient * X^(paired power)
QuotLE ==
  LET top == IF pw = <<>> THEN 0 ELSE pw[1] IN
  [k \in 1..(top + 1) |-> LET hits == {j \in 1..Len(q) : pw[j] = k - 1} IN
                          IF hits = {} THEN 0 ELSE q[CHOOSE j \in hits : TRUE]]
PowersDistinctDescending == \A j \in 1..(Len(pw) - 1) : pw[j + 1] = pw[j] - 1
PowersInKey == \A j \in 1..Len(pw) : pw[j] >= 0 /\ pw[j] < KeyLen

MultiCorrect ==
  (phase = "done" /\ mode = "multi") =>
     /\ PolyEq(PolyAdd(PolyMul(QuotLE, Z), ReverseSeq(st)), fLE)
     /\ Len(st) = m
     /\ \A k \in 1..m : EvalLE(ReverseSeq(st), pts[k]) = EvalLE(fLE, pts[k])
SingleCorrect ==
  (phase = "done" /\ mode = "single") =>
     /\ prev = EvalLE(fLE, pts[1])
     /\ PolyEq(PolyAdd(PolyMul(QuotLE, <<-pts[1], 1>>), <<prev>>), fLE)
Alignment == phase = "done" => PowersDistinctDescending /\ PowersInKey /\ (pw # <<>> => pw[Len(pw)] = 0)
\* the domain of C14 includes polynomials shorter than the point set (the time prover handles them)
NoPanicInDomain == phase # "panic"

Dump == phase \in {"done", "panic", "short"} =>
   PrintT(<<"DUMP", ToJson([mode |-> mode, f |-> f, pts |-> pts, phase |-> phase,
                            q |-> q, pw |-> pw, rem |-> st, eval |-> prev, keylen |-> KeyLen])>>)
=============================================================================
