---------------------------- MODULE Combinations ----------------------------
(***************************************************************************)
(* marlin_pst13_pc::combinations::Combinations (the multiset enumerator     *)
(* behind the PST13 universal parameters) as a state machine: the position  *)
(* vector, the `started` flag and the two branches of `next_combination`,   *)
(* run on exactly the input MarlinPST13::setup gives it (every variable     *)
(* index repeated max_degree times; the `len == degree` special case).      *)
(* TLC checks, for the whole grid of (num_vars, max_degree, degree), that   *)
(* the emitted sequences are exactly all multisets of that size -- none     *)
(* missing, none repeated -- and prints them for the harness, which         *)
(* compares the real iterator and the key set of the real parameters.       *)
(***************************************************************************)
EXTENDS Naturals, Integers, Sequences, FiniteSets, TLC, Json

CONSTANTS MaxVars, MaxDeg

VARIABLES nv, D, deg, pos, started, out, done
vars == <<nv, D, deg, pos, started, out, done>>

\* variable_set: each of 0..nv-1 repeated D times (already sorted)
Original == [k \in 1..(nv * D) |-> (k - 1) \div D]
OrgLen == nv * D
Orig(i) == Original[i + 1]          \* 0-based access as in the code
Pos(i) == pos[i + 1]

Current == [p \in 1..deg |-> Orig(pos[p])]

Init ==
  /\ nv \in 1..MaxVars /\ D \in 1..MaxDeg /\ deg \in 1..D
  /\ pos = [p \in 1..deg |-> p - 1]
  /\ started = FALSE /\ out = <<>> /\ done = FALSE

\* setup's special case: variable_set.len() == degree  =>  the single multiset variable_set
Special ==
  /\ ~done /\ OrgLen = deg
  /\ out' = <<Original>> /\ done' = TRUE
  /\ UNCHANGED <<nv, D, deg, pos, started>>

First ==
  /\ ~done /\ OrgLen > deg /\ ~started
  /\ started' = TRUE /\ out' = Append(out, Current)
  /\ UNCHANGED <<nv, D, deg, pos, done>>

\* branch "bump the back number"
BumpLast ==
  /\ ~done /\ OrgLen > deg /\ started
  /\ Orig(Pos(deg - 1)) # Orig(OrgLen - 1)
  /\ LET i0 == Pos(deg - 1)
         \* while current == next { i += 1; next = original[i] }
         i1 == CHOOSE j \in (i0 + 1)..(OrgLen - 1) :
                  Orig(j) # Orig(i0) /\ \A jj \in (i0 + 1)..(j - 1) : Orig(jj) = Orig(i0)
         npos == [pos EXCEPT ![deg] = i1]
     IN /\ pos' = npos
        /\ out' = Append(out, [p \in 1..deg |-> Orig(npos[p])])
  /\ UNCHANGED <<nv, D, deg, started, done>>

\* branch "locate the number closest behind that needs to be bumped"
Candidates ==
  {ij \in (2..deg) \X (0..(OrgLen - 1)) :
      /\ Orig(Pos(deg - ij[1])) < Orig(OrgLen - ij[1])
      /\ ij[2] > Pos(deg - ij[1])
      /\ Orig(Pos(deg - ij[1])) < Orig(ij[2])}
Carry ==
  /\ ~done /\ OrgLen > deg /\ started
  /\ Orig(Pos(deg - 1)) = Orig(OrgLen - 1)
  /\ IF Candidates = {}
     THEN done' = TRUE /\ UNCHANGED <<pos, out>>
     ELSE LET imin == CHOOSE i \in {c[1] : c \in Candidates} : \A c \in Candidates : i <= c[1]
              jmin == CHOOSE j \in {c[2] : c \in {x \in Candidates : x[1] = imin}} :
                         \A c \in {x \in Candidates : x[1] = imin} : j <= c[2]
              npos == [p \in 1..deg |-> IF p - 1 >= deg - imin THEN jmin + (p - 1 - (deg - imin)) ELSE pos[p]]
          IN /\ pos' = npos
             /\ out' = Append(out, [p \in 1..deg |-> Orig(npos[p])])
             /\ done' = FALSE
  /\ UNCHANGED <<nv, D, deg, started>>

Next == Special \/ First \/ BumpLast \/ Carry \/ (done /\ UNCHANGED vars)
Spec == Init /\ [][Next]_vars

\* ---------------------------------------------------------------- the defining property
RECURSIVE Binom(_, _)
Binom(a, b) == IF b = 0 THEN 1 ELSE IF a < b THEN 0 ELSE Binom(a - 1, b - 1) + Binom(a - 1, b)
NonDecreasing(s) == \A p \in 1..(Len(s) - 1) : s[p] <= s[p + 1]
IsMultiset(s) == Len(s) = deg /\ NonDecreasing(s) /\ \A p \in 1..deg : s[p] \in 0..(nv - 1)

\* every position stays inside the variable set (an index error in the code would be a panic)
InRange == \A p \in 1..deg : pos[p] \in 0..(OrgLen - 1)
\* all multisets of size deg over nv variables, each exactly once
AllMultisetsOnce ==
  done => /\ \A k \in 1..Len(out) : IsMultiset(out[k])
          /\ \A k1, k2 \in 1..Len(out) : k1 # k2 => out[k1] # out[k2]
          /\ Len(out) = Binom(nv + deg - 1, deg)

Dump == done => PrintT(<<"DUMP", ToJson([nv |-> nv, D |-> D, deg |-> deg, out |-> out])>>)
=============================================================================
