--------------------------- MODULE DirectSession ---------------------------
(***************************************************************************)
(* Sessions of the three commitment APIs of the library that are NOT behind *)
(* the `PolynomialCommitment` trait (properties C01, C02, C03, C05 name them *)
(* explicitly):                                                             *)
(*   "kzg10"  kzg10::KZG10::{commit, open, check, batch_check}              *)
(*   "stream" streaming_kzg::{CommitterKey::{commit, open,                  *)
(*            batch_open_multi_points}, VerifierKey::{verify,               *)
(*            verify_multi_points}}                                         *)
(*   "mlpst"  multilinear_pc::MultilinearPC::{setup, trim, commit, open,    *)
(*            check}                                                        *)
(* These APIs have no labels, no query sets and no sponge: a statement is a *)
(* tuple of parallel LISTS (commitments, points, values, proofs) that the   *)
(* verifier walks position by position, so the history that matters is the *)
(* list surgery the transporting party may perform.  As in PCSession an     *)
(* artefact is represented by its provenance and the verifier is modelled   *)
(* under ideal algebra, reading the code facts of Schemes.tla through the   *)
(* constant Tree.                                                           *)
(*   Setup -> Commit -> Claim (honest opening) -> Adv -> Check -> done      *)
(***************************************************************************)
EXTENDS Naturals, Integers, Sequences, FiniteSets, TLC, Json

CONSTANTS
  Api,        \* "kzg10" | "stream" | "mlpst"
  Tree,       \* "pinned" | "fixed"  (code facts)
  Mode,       \* "honest" | "adv" | "adm" | "ser"
  MaxClaims,  \* kzg10: positions of a batch; stream: number of polynomials
  Emit

VARIABLES pc, cfg, polys, stmt, advname, want, out

vars == <<pc, cfg, polys, stmt, advname, want, out>>

NONE == -1
Min2(a, b) == IF a < b THEN a ELSE b
RECURSIVE MinSeq(_)
MinSeq(s) == IF Len(s) = 1 THEN s[1] ELSE Min2(s[1], MinSeq(Tail(s)))
DropLast(s) == SubSeq(s, 1, Len(s) - 1)
Swap(s, i, j) == [s EXCEPT ![i] = s[j], ![j] = s[i]]
SetOf(s) == {s[i] : i \in DOMAIN s}

\* code fact: does KZG10::batch_check compare the lengths of its four lists?  (defect D6 of DESIGN.md)
KzgBatchGuardsLengths == Tree = "fixed"

\* --------------------------------------------------------------------------
\* configuration
\* kzg10 : powers 0..sup of both tables; stream : max_degree, max_eval_points; mlpst : nv, supported nv
Cfgs ==
  CASE Api = "kzg10"  -> {[maxd |-> 4, sup |-> s] : s \in {2, 4}}
    [] Api = "stream" -> {[maxd |-> 5, maxpts |-> m] : m \in {2, 3}}
    [] Api = "mlpst"  -> {[nv |-> 3, sup |-> s] : s \in {2, 3}}

\* polynomial classes; the harness gives polynomial i of class "const" the constant 10+i and random
\* coefficients to "full" (degree = sup for kzg10, maxd for stream: larger than any point set)
Classes == {"zero", "const", "full"}
Hids == IF Api = "kzg10" THEN {NONE, 1} ELSE {NONE}
PolySpecs == {[cls |-> c, hid |-> h] : c \in Classes, h \in Hids}
NPolys == 2

ConstLike(p) == polys[p].cls \in {"zero", "const"}
Hidden(p) == polys[p].hid # NONE
\* evaluation and honest proof do not depend on the point
PointFree(p) == ConstLike(p) /\ ~Hidden(p)
\* two committed polynomials with the same commitment (and the same proofs)
SameComm(p, q) == p = q \/ (p # 0 /\ q # 0 /\ polys[p].cls = "zero" /\ polys[q].cls = "zero" /\ ~Hidden(p) /\ ~Hidden(q))
\* a value record [p, pt, d] = (evaluation of polynomial p at point pt) + d; is it the evaluation of q at z ?
ValueIs(v, q, z) ==
  /\ q # 0 /\ v.d = 0
  /\ (v.p = q \/ (polys[v.p].cls = "zero" /\ polys[q].cls = "zero"))
  /\ (v.pt = z \/ ConstLike(q))

\* --------------------------------------------------------------------------
\* kzg10 and single streaming openings: one position (commitment c, point z, value v, proof pr)
\* proof record [p, pt, mut]: produced by the library's prover from polynomial p (and its commitment
\* randomness) at point pt, then mutated: "none" | "w_rand" | "rv_plus" | "rv_drop" | "rv_add"
ProofFits(pr, c, z) ==
  /\ pr.mut = "none" /\ c # 0
  /\ (SameComm(pr.p, c) \/ (PointFree(pr.p) /\ PointFree(c)))   \* witnesses of constants are all the identity
  /\ (pr.pt = z \/ PointFree(pr.p))
PosValid(c, z, v, pr) == ProofFits(pr, c, z) /\ ValueIs(v, c, z)

Lens(s) == <<Len(s.comms), Len(s.points), Len(s.vals), Len(s.proofs)>>
EqualLens(s) == \A i, j \in 1..4 : Lens(s)[i] = Lens(s)[j]
\* the code: zip of the four lists (shortest wins); with the guard a length mismatch is an error
\* positions whose witness was shifted by the compensation plan
Shifted(s, i) == "comp" \in DOMAIN s /\ i \in {s.comp[1], s.comp[2]}
KzgBatch(s) ==
  LET n == MinSeq(Lens(s)) IN
  IF KzgBatchGuardsLengths /\ ~EqualLens(s) THEN "err"
  ELSE IF \A i \in 1..n : PosValid(s.comms[i], s.points[i], s.vals[i], s.proofs[i]) /\ ~Shifted(s, i) THEN "accept" ELSE "reject"
KzgSingles(s) ==
  LET n == MinSeq(Lens(s)) IN
  [i \in 1..n |-> IF PosValid(s.comms[i], s.points[i], s.vals[i], s.proofs[i]) /\ ~Shifted(s, i) THEN "accept" ELSE "reject"]
\* what the verifier is shown: position i claims  value_i = polynomial(comms_i)(points_i);
\* a position without all four parts is not a claim the property lets the verifier accept
KzgClaimsTrue(s) == EqualLens(s) /\ \A i \in DOMAIN s.comms : ValueIs(s.vals[i], s.comms[i], s.points[i])

\* --------------------------------------------------------------------------
\* streaming multi-point statement:
\*   comms (one per polynomial), points, vals[k][j] (polynomial k at point j), eta (verifier's challenge),
\*   proof [ps, pts, eta, mut] = batch_open_multi_points(polynomials ps, points pts, challenge eta)
\* ideal algebra: the pairing check holds iff  SUM eta^k f_k - SUM eta^k I_k = Q * Z_points  as polynomials,
\* Q the quotient committed in the proof, I_k the interpolation of row k.
StreamShapeOK(s) == Len(s.vals) = Len(s.comms) /\ \A k \in DOMAIN s.vals : Len(s.vals[k]) = Len(s.points)
NoDupPoints(s) == Cardinality(SetOf(s.points)) = Len(s.points)
StreamClaimsTrue(s) ==
  StreamShapeOK(s) /\ \A k \in DOMAIN s.comms : \A j \in DOMAIN s.points : ValueIs(s.vals[k][j], s.comms[k], s.points[j])
\* the quotient is zero when every batched polynomial is shorter than the point set (classes zero / const)
QZero(pr) == \A k \in DOMAIN pr.ps : ConstLike(pr.ps[k])
\* polynomials shorter than the point set add nothing to the quotient, whatever their weight eta^k
EtaIrrelevant(pr) == \A k \in DOMAIN pr.ps : k >= 2 => ConstLike(pr.ps[k])
StreamMulti(s) ==
  IF ~StreamShapeOK(s) THEN "unknown"
  ELSE IF ~NoDupPoints(s) THEN "panic"          \* inverse of zero in the interpolation
  ELSE IF s.proof.mut # "none" \/ ~StreamClaimsTrue(s) THEN "reject"
  ELSE IF QZero(s.proof) THEN (IF \A k \in DOMAIN s.comms : ConstLike(s.comms[k]) THEN "accept" ELSE "reject")
  ELSE IF /\ Len(s.proof.ps) = Len(s.comms)
          /\ \A k \in DOMAIN s.comms : SameComm(s.proof.ps[k], s.comms[k])
          /\ SetOf(s.proof.pts) = SetOf(s.points)
          /\ (s.proof.eta = s.eta \/ EtaIrrelevant(s.proof))
       THEN "accept" ELSE "reject"

\* --------------------------------------------------------------------------
\* multilinear PST: statement (comm, point [id, dlen], val, proof [p, pt, mut])
\* mut: "none" | "elem_rand" | "drop_last" | "extra" | "identity_long"
\* check pairs vk.nv pairing lefts with the proof's elements; a point shorter than nv indexes out of bounds
MlCheck(s) ==
  IF s.point.dlen < 0 THEN "panic"
  ELSE LET fits == s.comm # 0 /\ (SameComm(s.proof.p, s.comm) \/ (PointFree(s.proof.p) /\ PointFree(s.comm))) /\ (s.proof.pt = s.point.id \/ PointFree(s.proof.p))
           true == ValueIs(s.val, s.comm, s.point.id)
       IN CASE s.proof.mut = "none" -> IF fits /\ true THEN "accept" ELSE "reject"
            [] s.proof.mut = "elem_rand" -> "reject"
            \* ark-ec's multi_pairing pairs its two lists with zip_eq: a proof with more or fewer than nv
            \* elements aborts (learnt from the code by replay: the first model had a truncating zip here)
            [] s.proof.mut \in {"drop_last", "extra", "identity_long"} -> "panic"
MlClaimsTrue(s) == ValueIs(s.val, s.comm, s.point.id)

\* --------------------------------------------------------------------------
\* honest statements
PtIds == {1, 2}          \* 3 is used by the three-point streaming statements, 4 only as a tamper target
TamperPt == 4
HonestVal(p, z) == [p |-> p, pt |-> z, d |-> 0]
HonestProof(p, z) == [p |-> p, pt |-> z, mut |-> "none"]

\* kzg10: a batch of n positions (polynomial, point); stream: n polynomials at m points; mlpst: one
KzgClaimLists == UNION {[1..n -> (1..NPolys) \X PtIds] : n \in 1..MaxClaims}
KzgHonest(cl) ==
  [comms |-> [i \in DOMAIN cl |-> cl[i][1]], points |-> [i \in DOMAIN cl |-> cl[i][2]],
   vals |-> [i \in DOMAIN cl |-> HonestVal(cl[i][1], cl[i][2])],
   proofs |-> [i \in DOMAIN cl |-> HonestProof(cl[i][1], cl[i][2])]]
StreamPolyLists == UNION {[1..n -> 1..NPolys] : n \in 1..MaxClaims}
StreamPointLists == {<<1>>, <<1, 2>>, <<2, 1>>, <<1, 2, 3>>}
StreamHonest(ps, pts) ==
  [comms |-> ps, points |-> pts, eta |-> 1,
   vals |-> [k \in DOMAIN ps |-> [j \in DOMAIN pts |-> HonestVal(ps[k], pts[j])]],
   proof |-> [ps |-> ps, pts |-> pts, eta |-> 1, mut |-> "none"],
   \* single-point API on the first polynomial and point
   single |-> [comms |-> <<ps[1]>>, points |-> <<pts[1]>>, vals |-> <<HonestVal(ps[1], pts[1])>>,
               proofs |-> <<HonestProof(ps[1], pts[1])>>]]
MlHonest(p, z) == [comm |-> p, point |-> [id |-> z, dlen |-> 0], val |-> HonestVal(p, z), proof |-> HonestProof(p, z)]

\* --------------------------------------------------------------------------
\* the adversary: plans [name, want, stmt'];  want is what the PROPERTY demands:
\*   "accept"      an honest statement (C01)
\*   "not_accept"  the statement contains a false claim, or a proof list that does not match the claims
\*                 (C02, C03, C05: "missing or surplus proofs all lead to rejection")
\*   "singles"     the batch must decide like the AND of the per-position checks (C05)
\*   "any"
Others(p) == (1..NPolys) \ {p}
KzgPlans(s) ==
  LET n == Len(s.comms)
      P(name, w, t) == [name |-> name, want |-> w, stmt |-> t]
  IN {P("honest", "accept", s)}
  \cup {P("value", "not_accept", [s EXCEPT !.vals[i].d = d]) : i \in 1..n, d \in {1, -1}}
  \cup {P("cancel", "not_accept", [s EXCEPT !.vals[i].d = 1, !.vals[j].d = -1]) : <<i, j>> \in {t \in (1..n) \X (1..n) : t[1] < t[2]}}
  \cup {P("point", IF ValueIs(s.vals[i], s.comms[i], TamperPt) THEN "singles" ELSE "not_accept",
          [s EXCEPT !.points[i] = TamperPt]) : i \in 1..n}
  \cup {P("comm", IF ValueIs(s.vals[i], q, s.points[i]) THEN "singles" ELSE "not_accept",
          [s EXCEPT !.comms[i] = q]) : <<i, q>> \in {t \in (1..n) \X (0..NPolys) : t[2] # s.comms[t[1]]}}
  \cup {P("proof_other_poly", "singles", [s EXCEPT !.proofs[i].p = q]) : <<i, q>> \in {t \in (1..n) \X (1..NPolys) : t[2] # s.proofs[t[1]].p}}
  \cup {P("proof_other_point", "singles", [s EXCEPT !.proofs[i].pt = TamperPt]) : i \in 1..n}
  \cup {P("proof_swap", "singles", [s EXCEPT !.proofs = Swap(s.proofs, i, j)]) : <<i, j>> \in {t \in (1..n) \X (1..n) : t[1] < t[2]}}
  \cup {P("proof_dup", "singles", [s EXCEPT !.proofs[i] = s.proofs[j]]) : <<i, j>> \in {t \in (1..n) \X (1..n) : t[1] # t[2]}}
  \cup {P("mut_" \o m, "singles", [s EXCEPT !.proofs[i].mut = m]) : <<i, m>> \in {t \in (1..n) \X {"w_rand", "rv_plus", "rv_drop", "rv_add"} :
                           t[2] = "w_rand" \/ (Hidden(s.proofs[t[1]].p) <=> t[2] \in {"rv_plus", "rv_drop"})}}
  \* false value together with a component mutation (C03)
  \cup {P("value_mut_" \o m, "not_accept", [s EXCEPT !.proofs[i].mut = m, !.vals[i].d = 1]) : <<i, m>> \in {t \in (1..n) \X {"w_rand", "rv_plus", "rv_drop", "rv_add"} :
                           t[2] = "w_rand" \/ (Hidden(s.proofs[t[1]].p) <=> t[2] \in {"rv_plus", "rv_drop"})}}
  \cup {P("value_proof_other_poly", "not_accept", [s EXCEPT !.proofs[i].p = q, !.vals[i].d = 1]) : <<i, q>> \in {t \in (1..n) \X (1..NPolys) : t[2] # s.proofs[t[1]].p}}
  \* cross-proof compensation under the hypothesis that the batching randomizers are all 1: a false value at
  \* position i, the witnesses of positions i and j (different points) shifted by +e g and -e g, e = delta/(z_i - z_j)
  \cup {P("compensate_unit", "not_accept", [s EXCEPT !.vals[i].d = 1] @@ [comp |-> <<i, j>>]) :
          <<i, j>> \in {t \in (1..n) \X (1..n) : t[1] # t[2] /\ s.points[t[1]] # s.points[t[2]]}}
  \* list surgery: one list shortened / extended
  \cup {P("short_proofs", "not_accept", [s EXCEPT !.proofs = DropLast(s.proofs)])}
  \cup {P("short_proofs_false_last", "not_accept", [s EXCEPT !.proofs = DropLast(s.proofs), !.vals[n].d = 1])}
  \cup {P("short_values", "not_accept", [s EXCEPT !.vals = DropLast(s.vals)])}
  \cup {P("short_points", "not_accept", [s EXCEPT !.points = DropLast(s.points)])}
  \cup {P("short_comms", "not_accept", [s EXCEPT !.comms = DropLast(s.comms)])}
  \cup {P("long_proofs", "not_accept", [s EXCEPT !.proofs = Append(s.proofs, s.proofs[n])])}
  \* a surplus value has no commitment, point or proof: it is not a claim, the property is silent
  \cup {P("long_values_false", "any", [s EXCEPT !.vals = Append(s.vals, [s.vals[n] EXCEPT !.d = 1])])}
  \cup {P("empty_proofs_all_false", "not_accept",
          [s EXCEPT !.proofs = <<>>, !.vals = [i \in DOMAIN s.vals |-> [s.vals[i] EXCEPT !.d = 1]]])}
  \* a consistent shorter batch is just another honest statement
  \cup (IF n >= 2 THEN {P("all_short", "accept", [comms |-> DropLast(s.comms), points |-> DropLast(s.points),
                                                  vals |-> DropLast(s.vals), proofs |-> DropLast(s.proofs)])}
        ELSE {})

StreamPlans(s) ==
  LET n == Len(s.comms)
      m == Len(s.points)
      P(name, w, t) == [name |-> name, want |-> w, stmt |-> t]
      TruthWant(t) == IF StreamClaimsTrue(t) THEN "any" ELSE "not_accept"
  IN {P("honest", "accept", s)}
  \cup {P("value", "not_accept", [s EXCEPT !.vals[k][j].d = d]) : k \in 1..n, j \in 1..m, d \in {1, -1}}
  \cup {P("cancel_polys", "not_accept", [s EXCEPT !.vals[1][j].d = 1, !.vals[2][j].d = -1]) : j \in {x \in 1..m : n >= 2}}
  \cup {P("cancel_points", "not_accept", [s EXCEPT !.vals[k][1].d = 1, !.vals[k][2].d = -1]) : k \in {x \in 1..n : m >= 2}}
  \cup {LET t == [s EXCEPT !.points[j] = TamperPt] IN P("point", TruthWant(t), t) : j \in 1..m}
  \cup {LET t == [s EXCEPT !.comms[k] = q] IN P("comm", TruthWant(t), t) : <<k, q>> \in {t \in (1..n) \X (0..NPolys) : t[2] # s.comms[t[1]]}}
  \cup {LET t == [s EXCEPT !.comms = Swap(s.comms, 1, 2)] IN P("comm_swap", TruthWant(t), t) : x \in {y \in {1} : n >= 2}}
  \cup {P("proof_other_eta", "any", [s EXCEPT !.proof.eta = 2])}
  \cup {P("verifier_other_eta", "any", [s EXCEPT !.eta = 2])}
  \cup {P("proof_other_polys", "any", [s EXCEPT !.proof.ps[k] = q]) : <<k, q>> \in {t \in (1..n) \X (1..NPolys) : t[2] # s.proof.ps[t[1]]}}
  \cup {P("proof_other_points", "any", [s EXCEPT !.proof.pts[j] = TamperPt]) : j \in 1..m}
  \cup {P("proof_rand", "any", [s EXCEPT !.proof.mut = "w_rand"])}
  \cup {P("value_proof_rand", "not_accept", [s EXCEPT !.proof.mut = "w_rand", !.vals[1][1].d = 1])}
  \cup {P("value_proof_other_polys", "not_accept", [s EXCEPT !.proof.ps[k] = q, !.vals[k][1].d = 1]) : <<k, q>> \in {t \in (1..n) \X (1..NPolys) : t[2] # s.proof.ps[t[1]]}}
  \* a point listed twice, the claims at its second occurrence true / false for the first polynomial: the batch
  \* must not be laxer than the claims one by one (the code divides by the difference of the two points)
  \cup {P("dup_point", "not_accept",
          [s EXCEPT !.points = Append(@, s.points[1]),
                    !.vals = [k \in DOMAIN @ |-> Append(@[k], [HonestVal(s.comms[k], s.points[1]) EXCEPT !.d = IF k = 1 THEN 1 ELSE 0])]])}
  \cup {P("dup_point_true", "any",
          [s EXCEPT !.points = Append(@, s.points[1]),
                    !.vals = [k \in DOMAIN @ |-> Append(@[k], HonestVal(s.comms[k], s.points[1]))]])}
  \* single-point API
  \cup {P("single_value", "not_accept_single", [s EXCEPT !.single.vals[1].d = d]) : d \in {1, -1}}
  \cup {P("single_point", IF ValueIs(s.single.vals[1], s.single.comms[1], TamperPt) THEN "any" ELSE "not_accept_single",
          [s EXCEPT !.single.points[1] = TamperPt])}
  \cup {P("single_comm", IF ValueIs(s.single.vals[1], q, s.single.points[1]) THEN "any" ELSE "not_accept_single",
          [s EXCEPT !.single.comms[1] = q]) : q \in (0..NPolys) \ {s.single.comms[1]}}
  \cup {P("single_value_proof_other_poly", "not_accept_single", [s EXCEPT !.single.proofs[1].p = q, !.single.vals[1].d = 1]) : q \in Others(s.single.proofs[1].p)}

MlPlans(s) ==
  LET P(name, w, t) == [name |-> name, want |-> w, stmt |-> t]
      TruthWant(t) == IF MlClaimsTrue(t) THEN "any" ELSE "not_accept"
  IN {P("honest", "accept", s)}
  \cup {P("value", "not_accept", [s EXCEPT !.val.d = d]) : d \in {1, -1}}
  \cup {LET t == [s EXCEPT !.point.id = TamperPt] IN P("point", TruthWant(t), t)}
  \cup {LET t == [s EXCEPT !.comm = q] IN P("comm", TruthWant(t), t) : q \in (0..NPolys) \ {s.comm}}
  \cup {P("proof_other_poly", "any", [s EXCEPT !.proof.p = q]) : q \in Others(s.proof.p)}
  \cup {P("proof_other_point", "any", [s EXCEPT !.proof.pt = TamperPt])}
  \cup {P("mut_" \o m, "any", [s EXCEPT !.proof.mut = m]) : m \in {"elem_rand", "drop_last", "extra"}}
  \cup {P("value_mut_" \o m, "not_accept", [s EXCEPT !.proof.mut = m, !.val.d = 1]) : m \in {"elem_rand", "drop_last", "extra"}}
  \cup {P("value_proof_other_poly", "not_accept", [s EXCEPT !.proof.p = q, !.val.d = 1]) : q \in Others(s.proof.p)}
  \* a proof made of identity elements only, one element longer than the key has variables, for a false value:
  \* every pairing with the identity is trivial, so only the pairing of the commitment term with h (or the refusal
  \* of a list of the wrong length) stands between this and acceptance
  \cup {P("value_identity_long", "not_accept", [s EXCEPT !.proof.mut = "identity_long", !.val.d = 1])}
  \cup {P("point_long", "any", [s EXCEPT !.point.dlen = 1])}
  \cup {P("point_short", "any", [s EXCEPT !.point.dlen = -1])}
  \cup {P("value_point_long", "not_accept", [s EXCEPT !.point.dlen = 1, !.val.d = 1])}

\* C12: canonical-serialization round trips of the artefacts on the way (mode = 2 * compress + validate).
\* On the abstract state they are stuttering steps: the decision must be the one without them.
SerArtefacts == CASE Api = "kzg10" -> {"pp", "powers", "vk", "comm", "rand", "proof", "all"}
                  [] Api = "mlpst" -> {"pp", "ck", "vk", "comm", "proof", "all"}
                  [] OTHER -> {}
SerPlans(s) ==
  LET P(name, w, t) == [name |-> name, want |-> w, stmt |-> t]
      false == CASE Api = "kzg10" -> [s EXCEPT !.vals[1].d = 1] [] Api = "mlpst" -> [s EXCEPT !.val.d = 1] [] OTHER -> s
  IN {P("ser", "accept", s @@ [ser |-> <<a, m>>]) : a \in SerArtefacts, m \in 0..3}
     \cup {P("ser_value", "not_accept", false @@ [ser |-> <<a, m>>]) : a \in SerArtefacts, m \in 0..3}

Plans(s) ==
  LET all == CASE Api = "kzg10" -> KzgPlans(s) [] Api = "stream" -> StreamPlans(s) [] Api = "mlpst" -> MlPlans(s)
  IN IF Mode = "honest" THEN {p \in all : p.name = "honest"}
     ELSE IF Mode = "ser" THEN SerPlans(s)
     ELSE {p \in all : p.name # "honest"}

\* --------------------------------------------------------------------------
\* admission (C17): one request at a boundary magnitude instead of the commit; `cls` is what the
\* property demands ("ok": in-domain, must not abort and its honest continuation verifies;
\* "refuse": Err or abort, never a result; "any": the statement is silent)
\* code fact: does MultilinearPC::commit compare the polynomial's number of variables with the key's?
\* (`open` always did; defect D11 of DESIGN.md)
MlCommitGuardsNumVars == Tree = "fixed"
\* the harness hands KZG10 a `Powers` view with the plain powers 0..sup and the hiding powers 0..min(sup+2, maxd+1)
GammaLen == IF cfg.sup + 3 <= cfg.maxd + 2 THEN cfg.sup + 3 ELSE cfg.maxd + 2
AdmReqs ==
  CASE Api = "kzg10" ->
         {[op |-> "commit", deg |-> d, hid |-> h, rng |-> r] :
             d \in {cfg.sup, cfg.sup + 1}, h \in {NONE, 0, 1, cfg.sup - 1, cfg.sup, GammaLen - 2, GammaLen - 1}, r \in BOOLEAN}
         \cup {[op |-> "open", deg |-> cfg.sup + 1, hid |-> NONE, rng |-> TRUE]}
    [] Api = "mlpst" ->
         {[op |-> o, nv |-> n] : o \in {"commit", "open"}, n \in {cfg.sup - 1, cfg.sup, cfg.sup + 1}}
         \cup {[op |-> "setup", nv |-> n] : n \in {0, 1}}
         \cup {[op |-> "trim", nv |-> n] : n \in {cfg.nv, cfg.nv + 1}}
    [] Api = "stream" ->      \* not among the files C17 is anchored in: observed, never judged
         {[op |-> "commit", len |-> l] : l \in {cfg.maxd + 1, cfg.maxd + 2}}
AdmExpect(r) ==
  CASE Api = "kzg10" ->
         IF r.deg > cfg.sup THEN "refuse"
         ELSE IF r.hid = NONE THEN "ok"
         ELSE IF ~r.rng THEN "refuse"
         ELSE IF r.hid + 1 >= GammaLen THEN "refuse" \* blinding polynomial of degree hid+1 needs hid+2 hiding powers
         ELSE IF r.hid = 0 THEN "refuse"             \* the property lists a hiding bound of zero; KZG10 accepts it (D13)
         ELSE "ok"
    [] Api = "mlpst" ->
         CASE r.op = "setup" -> IF r.nv = 0 THEN "refuse" ELSE "ok"
           [] r.op = "trim" -> IF r.nv > cfg.nv THEN "refuse" ELSE "ok"
           [] OTHER -> IF r.nv = cfg.sup THEN "ok" ELSE "refuse"
    [] Api = "stream" -> IF r.len <= cfg.maxd + 1 THEN "ok" ELSE "any"
\* what the code does (only the mlpst commit differs from the expectation on the pinned tree)
AdmPredict(r) ==
  IF Api = "mlpst" /\ r.op = "commit" /\ r.nv # cfg.sup /\ ~MlCommitGuardsNumVars THEN "ok"
  ELSE IF Api = "stream" THEN "ok"
  ELSE IF Api = "kzg10" /\ r.op = "commit" /\ r.deg <= cfg.sup /\ r.hid = 0 /\ r.rng THEN "ok"   \* code fact (D13)
  ELSE IF AdmExpect(r) = "any" THEN "ok" ELSE AdmExpect(r)

\* --------------------------------------------------------------------------
Init ==
  /\ pc = "setup" /\ cfg = [x |-> 0] /\ polys = <<>> /\ stmt = [x |-> 0] /\ advname = "" /\ want = "" /\ out = [x |-> 0]

Setup ==
  /\ pc = "setup"
  /\ \E c \in Cfgs : cfg' = c
  /\ pc' = IF Mode = "adm" THEN "admit" ELSE "commit"
  /\ UNCHANGED <<polys, stmt, advname, want, out>>

Admit ==
  /\ pc = "admit"
  /\ \E r \in AdmReqs : stmt' = r /\ want' = AdmExpect(r) /\ out' = [batch |-> AdmPredict(r), singles |-> <<>>, true |-> TRUE]
  /\ advname' = "adm"
  /\ pc' = "done"
  /\ UNCHANGED <<cfg, polys>>

Commit ==
  /\ pc = "commit"
  /\ \E ps \in [1..NPolys -> PolySpecs] : polys' = ps
  /\ pc' = "claim"
  /\ UNCHANGED <<cfg, stmt, advname, want, out>>

Claim ==
  /\ pc = "claim"
  /\ CASE Api = "kzg10"  -> \E cl \in KzgClaimLists : stmt' = KzgHonest(cl)
       [] Api = "stream" -> \E ps \in StreamPolyLists, pts \in StreamPointLists :
                               Len(pts) <= cfg.maxpts /\ stmt' = StreamHonest(ps, pts)
       [] Api = "mlpst"  -> \E p \in 1..NPolys, z \in {1} : stmt' = MlHonest(p, z)
  /\ pc' = "adv"
  /\ UNCHANGED <<cfg, polys, advname, want, out>>

Adv ==
  /\ pc = "adv"
  /\ \E plan \in Plans(stmt) : stmt' = plan.stmt /\ advname' = plan.name /\ want' = plan.want
  /\ pc' = "check"
  /\ UNCHANGED <<cfg, polys, out>>

Check ==
  /\ pc = "check"
  /\ out' = CASE Api = "kzg10"  -> [batch |-> KzgBatch(stmt), singles |-> KzgSingles(stmt), true |-> KzgClaimsTrue(stmt)]
              [] Api = "stream" -> [batch |-> StreamMulti(stmt), singles |-> KzgSingles(stmt.single),
                                    true |-> StreamClaimsTrue(stmt)]   \* the single statement: D_NoFalseAcceptSingle
              [] Api = "mlpst"  -> [batch |-> MlCheck(stmt), singles |-> <<>>, true |-> MlClaimsTrue(stmt)]
  /\ pc' = "done"
  /\ UNCHANGED <<cfg, polys, stmt, advname, want>>

Next == Setup \/ Admit \/ Commit \/ Claim \/ Adv \/ Check
Spec == Init /\ [][Next]_vars

\* --------------------------------------------------------------------------
\* invariants: the properties on the faithful model (they read `out`, never the code facts)
Done == pc = "done" /\ Mode # "adm"
AdmDone == pc = "done" /\ Mode = "adm"
\* C17: the code model refuses what the property says must be refused and admits what is in-domain
D13 == Api = "kzg10" /\ stmt.op = "commit" /\ stmt.hid = 0       \* known finding: hiding bound of zero accepted
D_Refusals == AdmDone /\ ~D13 => (want = "refuse" => out.batch = "refuse") /\ (want = "ok" => out.batch = "ok")
AndOfSingles == \A i \in DOMAIN out.singles : out.singles[i] = "accept"
TypeOK == pc \in {"setup", "admit", "commit", "claim", "adv", "check", "done"}
\* C01
D_HonestAccepted == Done /\ want = "accept" => out.batch = "accept" /\ AndOfSingles
\* C02 / C03: acceptance implies that everything shown is true
D_NoFalseAccept == Done /\ out.batch = "accept" => out.true
D_NoFalseAcceptSingle ==
  Done /\ Api \in {"kzg10", "stream"} =>
    LET s == IF Api = "kzg10" THEN stmt ELSE stmt.single IN
    \A i \in DOMAIN out.singles : out.singles[i] = "accept" => ValueIs(s.vals[i], s.comms[i], s.points[i])
D_WantHolds == /\ Done /\ want = "not_accept" => out.batch # "accept"
               /\ Done /\ want = "not_accept_single" => ~AndOfSingles
\* C05: batch == AND of the per-position checks whenever the four lists describe the same claims
D_BatchIsAndOfSingles == Done /\ Api = "kzg10" /\ EqualLens(stmt) => ((out.batch = "accept") <=> AndOfSingles)

\* --------------------------------------------------------------------------
Behaviour ==
  [api |-> Api, scheme |-> Api, tag |-> advname, want |-> want, cfg |-> cfg, polys |-> polys, stmt |-> stmt,
   model |-> <<[res |-> out.batch, singles |-> out.singles, true |-> out.true]>>]
EmitReplay == (Emit /\ pc = "done") => PrintT(<<"REPLAY", ToJson(Behaviour)>>)
=============================================================================
