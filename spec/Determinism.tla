---------------------------- MODULE Determinism ----------------------------
(***************************************************************************)
(* Property C18: the library as a deterministic state machine replicated    *)
(* over execution configurations.  A replica is a pair (worker threads,     *)
(* feature set); every replica is fed the same command log (sessions of     *)
(* the deterministic schemes with fixed RNG seeds) and publishes a digest   *)
(* of every output (keys, commitments, proofs, decisions).  Agreement: two  *)
(* replicas that have executed step k published the same digest for it.     *)
(* TLC explores all interleavings of the replicas' progress for a small log *)
(* (the order in which replicas run cannot matter); ReplicaTrace.tla        *)
(* validates the digests recorded from real runs against the same rule.     *)
(***************************************************************************)
EXTENDS Naturals, Sequences, FiniteSets, TLC

CONSTANTS Replicas, NSteps

\* the library's output at step k: one abstract value per step, the same function for every replica
Output(k) == <<"out", k>>

VARIABLES done
vars == <<done>>

Init == done = [r \in Replicas |-> <<>>]
Step(r) == /\ Len(done[r]) < NSteps
           /\ done' = [done EXCEPT ![r] = Append(@, Output(Len(@) + 1))]
Next == \E r \in Replicas : Step(r)
Spec == Init /\ [][Next]_vars

Agreement == \A r1, r2 \in Replicas : \A k \in 1..NSteps :
               (k <= Len(done[r1]) /\ k <= Len(done[r2])) => done[r1][k] = done[r2][k]
=============================================================================
