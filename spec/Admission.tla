----------------------------- MODULE Admission -----------------------------
(***************************************************************************)
(* Which requests each scheme's setup / trim / commit / open must answer,   *)
(* and which it must refuse (property C17, and the admission half of C04).  *)
(* Classes: "ok" (in-domain: must succeed and must not abort), "refuse"     *)
(* (out-of-domain: Err or abort, never a result), "any" (the statement is   *)
(* silent or the scheme simply ignores the attribute: unconstrained).       *)
(* The rules transcribe check_degree_is_too_large, check_hiding_bound,      *)
(* check_degrees_and_bounds (with its binary search over the sorted,        *)
(* de-duplicated bound list), IPA's rounding to 2^k - 1, Sonic's refusal    *)
(* of bounds above the supported degree, Hyrax's even-variable rule.        *)
(***************************************************************************)
EXTENDS Schemes

RangeOf(seq) == {seq[i] : i \in DOMAIN seq}
MaxOf(S) == CHOOSE x \in S : \A y \in S : y <= x
MinOf(S) == CHOOSE x \in S : \A y \in S : x <= y

\* smallest 2^k - 1 that is >= d   (IPA rounds max_degree and supported_degree this way)
RECURSIVE Pow2Ceil(_, _)
Pow2Ceil(n, acc) == IF acc >= n THEN acc ELSE Pow2Ceil(n, 2 * acc)
RoundIpa(d) == Pow2Ceil(d + 1, 1) - 1

\* ---------------------------------------------------------------- setup
\* pp = [s, maxdeg, nv]
SetupClass(s, maxdeg, nv) ==
  CASE s \in {"marlin", "sonic"} -> IF maxdeg < 1 THEN "refuse" ELSE "ok"
    [] s = "ipa"   -> IF maxdeg < 1 THEN "any" ELSE "ok"
    [] s = "pst13" -> IF nv = NONE \/ nv < 1 \/ maxdeg < 1 THEN "refuse" ELSE "ok"
    [] s = "hyrax" -> IF nv = NONE \/ nv % 2 = 1 THEN "refuse"
                      ELSE IF nv = 0 THEN "any" ELSE "ok"
    \* multilinear linear codes: a polynomial in zero variables has no matrix layout (code fact
    \* LinCodeRefusesZeroVars: before D14 `commit` succeeded and `open` aborted)
    [] s = "brakedown" -> IF nv = NONE THEN "refuse"
                          ELSE IF nv = 0 THEN (IF LinCodeRefusesZeroVars THEN "refuse" ELSE "any") ELSE "ok"
    [] s = "ligero_ml" -> IF nv = 0 THEN (IF LinCodeRefusesZeroVars THEN "refuse" ELSE "any") ELSE "ok"
    [] OTHER -> "ok"           \* univariate Ligero: parameters do not depend on the request

\* the maximum degree the parameters report
EffMax(s, maxdeg) == IF s = "ipa" THEN RoundIpa(maxdeg) ELSE maxdeg

\* ---------------------------------------------------------------- trim
\* keys = [sup, hid, nobounds, bounds]   (bounds: the list as presented by the caller)
BoundSet(keys) == IF keys.nobounds THEN {} ELSE RangeOf(keys.bounds)

TrimClass(s, maxdeg, keys) ==
  LET B == BoundSet(keys) M == EffMax(s, maxdeg) IN
  CASE s = "marlin" ->
         IF keys.sup > M \/ keys.hid > M \/ (\E d \in B : d > M) THEN "refuse" ELSE "ok"
    [] s = "sonic" ->
         IF keys.sup > M \/ keys.hid > M \/ (\E d \in B : d > keys.sup) THEN "refuse" ELSE "ok"
    [] s = "ipa" -> IF RoundIpa(keys.sup) > M THEN "refuse" ELSE "ok"
    [] s = "pst13" -> IF keys.sup > M THEN "refuse" ELSE "ok"
    [] OTHER -> "ok"

\* the supported degree the trimmed keys report
EffSup(s, keys) == IF s = "ipa" THEN RoundIpa(keys.sup) ELSE keys.sup

\* ---------------------------------------------------------------- commit / open
\* p = [l, cls, deg, lz, bound, hid];  for family "ml", p.deg carries the polynomial's
\* number of variables when p.cls = "nv" (wrong-number-of-variables requests)
DegOf(p) == IF p.cls \in {"zero", "const"} THEN 0 ELSE p.deg

BoundClass(s, maxdeg, keys, p) ==
  LET B == BoundSet(keys) d == p.bound IN
  IF d = NONE THEN "ok"
  ELSE CASE s \in {"marlin", "sonic"} ->
              IF keys.nobounds \/ d \notin B \/ d < DegOf(p) \/ d > EffMax(s, maxdeg)
              THEN "refuse" ELSE "ok"
         \* (IPA pads the requested supported degree to 2^k - 1 and works up to there; what a key does between the
         \*  degree it was REQUESTED for and the padded one is not something the properties fix: "any")
         [] s = "ipa" -> IF d < DegOf(p) \/ d > EffSup(s, keys) THEN "refuse" ELSE IF d > keys.sup THEN "any" ELSE "ok"
         [] OTHER -> "any"      \* schemes without degree-bound support ignore the attribute

HidingClass(s, keys, p, rng) ==
  LET h == p.hid IN
  IF h = NONE THEN "ok"
  ELSE CASE s = "marlin" ->
              IF ~rng \/ h > keys.hid THEN "refuse"
              ELSE IF h = 0 THEN (IF KzgAcceptsHidingZero THEN "zero_hid" ELSE "refuse") ELSE "ok"
         [] s = "sonic" ->
              IF ~rng \/ h > keys.hid \/ (p.bound # NONE /\ h > p.bound) THEN "refuse"
              ELSE IF h = 0 THEN (IF KzgAcceptsHidingZero THEN "zero_hid" ELSE "refuse") ELSE "ok"
         [] s = "ipa" -> IF ~rng THEN "refuse" ELSE IF h = 0 THEN "any" ELSE "ok"
         [] s = "pst13" -> IF ~rng \/ h = 0 \/ h > keys.sup THEN "refuse" ELSE "ok"
         [] OTHER -> "any"

SizeClass(s, nv, keys, p) ==
  CASE Family(s) = "uni" /\ ~LinCode(s) -> IF DegOf(p) > EffSup(s, keys) THEN "refuse"
                                           ELSE IF DegOf(p) > keys.sup THEN "any" ELSE "ok"
    [] s = "pst13" -> IF DegOf(p) > keys.sup THEN "refuse" ELSE "ok"
    [] s = "ligero_uni" -> IF p.cls = "zero" /\ LigeroZeroPolyPanics THEN "panics" ELSE "ok"
    [] s = "hyrax" -> IF p.cls = "nv" /\ p.deg # nv THEN "refuse" ELSE "ok"
    \* Brakedown's parameters are generated for one matrix shape (code fact BrakedownGuardsSize: before D15
    \* a longer coefficient vector was cut down to that shape and committed)
    [] s = "brakedown" -> IF p.cls = "nv" /\ p.deg # nv THEN (IF BrakedownGuardsSize THEN "refuse" ELSE "any") ELSE "ok"
    \* multilinear Ligero has no number of variables in its keys; the harness only has points of
    \* the session's size, so other sizes are left unconstrained here
    [] s = "ligero_ml" -> IF p.cls = "nv" /\ p.deg # nv THEN "any" ELSE "ok"
    [] OTHER -> "ok"

\* "zero_hid": a hiding bound of zero, which the property (C17) lists among the requests to refuse and
\* MarlinPST13 refuses, but KZG10::commit accepts (known finding D13: its zero test looks at the blinding
\* polynomial's degree h + 1)
Worst(S) == IF "refuse" \in S THEN "refuse"
            ELSE IF "zero_hid" \in S THEN "zero_hid"
            ELSE IF "panics" \in S THEN "panics"
            ELSE IF "any" \in S THEN "any" ELSE "ok"

\* class of committing to one polynomial
CommitClass1(s, maxdeg, nv, keys, p, rng) ==
  LET r == (IF AlwaysBlinds(s) /\ ~rng THEN "refuse" ELSE "ok") IN     \* always-hiding schemes need the RNG
  Worst({BoundClass(s, maxdeg, keys, p), HidingClass(s, keys, p, rng),
         SizeClass(s, nv, keys, p), r})

\* class of committing to a list (the call fails as a whole)
CommitClass(s, maxdeg, nv, keys, ps, rng) ==
  Worst({CommitClass1(s, maxdeg, nv, keys, ps[i], rng) : i \in DOMAIN ps})

\* The property-level expectation for a class: a defect the code-facts know about
\* ("panics") is still in-domain for the property (C01/C17 demand success).
Expect(c) == IF c = "panics" THEN "ok" ELSE IF c = "zero_hid" THEN "refuse" ELSE c
\* what the code-facts model predicts the code does
Predict(c) == IF c = "panics" THEN "refuse" ELSE IF c = "zero_hid" THEN "ok" ELSE c

\* opening polynomials that were committed successfully: every trait scheme re-runs the
\* same admission; Hyrax additionally needs an RNG, IPA needs one when some polynomial hides
OpenClass(s, keys, ps, rng) ==
  CASE s = "hyrax" -> IF ~rng THEN "refuse" ELSE "ok"
    [] OTHER -> "ok"
=============================================================================
