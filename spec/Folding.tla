------------------------------ MODULE Folding ------------------------------
(***************************************************************************)
(* streaming_kzg::data_structures: FoldedPolynomialTreeIter and             *)
(* FoldedPolynomialStreamIter as state machines over integers -- one action *)
(* per branch of `next`, `init_stack` as the initial state.                 *)
(*                                                                          *)
(* Coefficients arrive big-endian (highest degree first).  Folding a        *)
(* polynomial with challenge a maps little-endian coefficients f to         *)
(* f'[i] = f[2i] + a * f[2i+1] (missing f[2i+1] = 0).  The tree iterator    *)
(* must emit, for every level k = 1..depth, exactly the big-endian          *)
(* coefficients of the k-th successive fold (ceil(n / 2^k) of them), in one *)
(* pass; the stream iterator emits only the last level.  TLC checks this    *)
(* for every length 1..MaxLen and depth 0..MaxDepth, power of two or not,   *)
(* and prints the emitted sequences so that the harness can feed the same   *)
(* integers (embedded in Fr) to the real iterators and compare.             *)
(***************************************************************************)
EXTENDS Naturals, Integers, Sequences, FiniteSets, TLC, Json

CONSTANTS MaxLen, MaxDepth, Which   \* Which \in {"tree", "stream"}

VARIABLES n, depth, stack, pos, out, done

vars == <<n, depth, stack, pos, out, done>>

\* the input: coefficient of X^i is i + 1 (distinct, non-zero); big-endian stream
CoefLE(len) == [i \in 1..len |-> i]
InputBE(len) == [j \in 1..len |-> len - j + 1]
\* challenges alternate 2, 3, 2, ... (adjacent levels distinct, values stay below 2^31)
Chal(level) == IF level % 2 = 0 THEN 2 ELSE 3       \* level is 0-based, as in the code

Pow2(k) == 2 ^ k

\* ---------------------------------------------------------------- init_stack
\* delta zeros are implied in front of the stream; they are represented by at most one zero
\* sub-tree per level, highest level first
RECURSIVE InitStackRec(_, _, _)
InitStackRec(i, delta, acc) ==
  IF i < 0 THEN acc
  ELSE IF delta >= Pow2(i) THEN InitStackRec(i - 1, delta - Pow2(i), Append(acc, <<i, 0>>))
       ELSE InitStackRec(i - 1, delta, acc)
InitStack(len, d) ==
  LET chunk == Pow2(d) IN
  IF len % chunk = 0 THEN <<>> ELSE InitStackRec(d - 1, chunk - (len % chunk), <<>>)

Init ==
  /\ n \in 1..MaxLen /\ depth \in 0..MaxDepth
  /\ stack = InitStack(n, depth)
  /\ pos = 1 /\ out = <<>> /\ done = FALSE

EmptyOrTopAbove0 == IF Len(stack) = 0 THEN TRUE ELSE stack[Len(stack)][1] # 0
TopTwoSame == IF Len(stack) > 1 THEN stack[Len(stack)][1] = stack[Len(stack) - 1][1] ELSE FALSE
TopTwoSameOld == Len(stack) > 1 /\ stack[Len(stack)][1] = stack[Len(stack) - 1][1]

\* branch 1: fold the two topmost items of equal level
FoldTop ==
  /\ ~done /\ TopTwoSame
  /\ LET lhs == stack[Len(stack)][2]
         level == stack[Len(stack) - 1][1]
         rhs == stack[Len(stack) - 1][2]
         item == <<level + 1, rhs * Chal(level) + lhs>>
     IN /\ stack' = IF item[1] # depth THEN Append(SubSeq(stack, 1, Len(stack) - 2), item)
                    ELSE SubSeq(stack, 1, Len(stack) - 2)
        /\ out' = IF Which = "tree" \/ item[1] = depth THEN Append(out, item) ELSE out
  /\ UNCHANGED <<n, depth, pos, done>>

\* stream iterator only: read two coefficients at once and push the level-1 item directly
ReadTwo ==
  /\ ~done /\ Which = "stream" /\ ~TopTwoSame
  /\ depth > 0 /\ EmptyOrTopAbove0
  /\ IF pos + 1 > n
     THEN done' = TRUE /\ UNCHANGED <<stack, out, pos>>        \* `?` on an exhausted iterator
     ELSE LET rhs == InputBE(n)[pos] lhs == InputBE(n)[pos + 1]
              item == <<1, Chal(0) * rhs + lhs>>
          IN /\ stack' = IF depth # 1 THEN Append(stack, item) ELSE stack
             /\ out' = IF depth = 1 THEN Append(out, item) ELSE out
             /\ pos' = pos + 2 /\ done' = FALSE
  /\ UNCHANGED <<n, depth>>

\* read one coefficient (level 0)
ReadOne ==
  /\ ~done /\ ~TopTwoSame
  /\ Which = "stream" => ~(depth > 0 /\ EmptyOrTopAbove0)
  /\ IF pos > n
     THEN done' = TRUE /\ UNCHANGED <<stack, out, pos>>
     ELSE LET item == <<0, InputBE(n)[pos]>>
          IN /\ stack' = IF depth # 0 THEN Append(stack, item) ELSE stack
             /\ out' = IF depth = 0 /\ Which = "stream" THEN Append(out, item) ELSE out
             /\ pos' = pos + 1 /\ done' = FALSE
  /\ UNCHANGED <<n, depth>>

Next == FoldTop \/ ReadTwo \/ ReadOne \/ (done /\ UNCHANGED vars)

Spec == Init /\ [][Next]_vars

\* ---------------------------------------------------------------- the naive definition
FoldLE(f, a) ==
  LET m == (Len(f) + 1) \div 2 IN
  [i \in 1..m |-> f[2 * i - 1] + (IF 2 * i <= Len(f) THEN a * f[2 * i] ELSE 0)]
RECURSIVE FoldK(_, _)
FoldK(f, k) == IF k = 0 THEN f ELSE FoldLE(FoldK(f, k - 1), Chal(k - 1))
ReverseSeq(s) == [i \in 1..Len(s) |-> s[Len(s) - i + 1]]
LevelBE(len, k) == ReverseSeq(FoldK(CoefLE(len), k))

SelectLevel(s, k) == SelectSeq(s, LAMBDA it : it[1] = k)
Values(s) == [i \in 1..Len(s) |-> s[i][2]]

\* at termination every level's emitted sub-sequence is the big-endian k-th fold
TreeCorrect ==
  (done /\ Which = "tree") =>
     \A k \in 1..depth : Values(SelectLevel(out, k)) = LevelBE(n, k)
StreamCorrect ==
  (done /\ Which = "stream") => Values(out) = LevelBE(n, depth)
\* nothing is left unfolded and the whole input was consumed
Consumed == done => pos = n + 1 /\ (depth > 0 => stack = <<>>)

Dump == done => PrintT(<<"DUMP", ToJson([which |-> Which, n |-> n, depth |-> depth,
                                         out |-> [i \in 1..Len(out) |-> <<out[i][1], out[i][2]>>]])>>)
=============================================================================
