------------------------------- MODULE LinComb -------------------------------
(***************************************************************************)
(* data_structures::LinearCombination arithmetic: the seven operators       *)
(*   += (c, lc)   -= (c, lc)   += lc   -= lc   += c   -= c   *= c           *)
(* as actions on a term list (sequence of <<coefficient, term>>, term 0 =   *)
(* One).  The defining law: the value of the result at any assignment of    *)
(* polynomial evaluations is the same arithmetic on the operands' values.   *)
(* TLC explores every operator sequence of length <= MaxOps over the        *)
(* operand pool, checks the law at every step for several assignments, and  *)
(* prints (sequence, resulting term list) for the harness to re-execute on  *)
(* the real type.                                                           *)
(***************************************************************************)
EXTENDS Naturals, Integers, Sequences, FiniteSets, TLC, Json

CONSTANTS MaxOps, Scalars

\* operand pool
Pool == << << <<1, 1>> >>,                          \* p1
           << <<2, 1>>, <<-1, 2>>, <<3, 0>> >>,     \* 2 p1 - p2 + 3
           << <<0, 2>>, <<1, 2>> >>,                \* 0 p2 + p2
           << <<1, 1>>, <<2, 0>>, <<5, 0>> >> >>    \* p1 + 2 + 5  (two constant entries, as push / new allow)
Assignments == { [t \in 1..2 |-> IF t = 1 THEN 5 ELSE 7], [t \in 1..2 |-> IF t = 1 THEN -3 ELSE 11] }

VARIABLES lc, vals, hist
vars == <<lc, vals, hist>>

Eval(l, a) == LET RECURSIVE E(_) E(k) == IF k > Len(l) THEN 0
                                         ELSE l[k][1] * (IF l[k][2] = 0 THEN 1 ELSE a[l[k][2]]) + E(k + 1) IN E(1)
Scale(l, c) == [k \in 1..Len(l) |-> <<c * l[k][1], l[k][2]>>]

Init == /\ \E s \in 1..Len(Pool) : lc = Pool[s] /\ hist = << <<"start", s, 0>> >>
        /\ vals = [a \in Assignments |-> Eval(lc, a)]

Apply(op, c, s) ==
  LET o == Pool[s] IN
  CASE op = "add_c_lc" -> [l |-> lc \o Scale(o, c),  v |-> [a \in Assignments |-> vals[a] + c * Eval(o, a)]]
    [] op = "sub_c_lc" -> [l |-> lc \o Scale(o, -c), v |-> [a \in Assignments |-> vals[a] - c * Eval(o, a)]]
    [] op = "add_lc"   -> [l |-> lc \o o,            v |-> [a \in Assignments |-> vals[a] + Eval(o, a)]]
    [] op = "sub_lc"   -> [l |-> lc \o Scale(o, -1), v |-> [a \in Assignments |-> vals[a] - Eval(o, a)]]
    [] op = "add_c"    -> [l |-> Append(lc, <<c, 0>>),  v |-> [a \in Assignments |-> vals[a] + c]]
    [] op = "sub_c"    -> [l |-> Append(lc, <<-c, 0>>), v |-> [a \in Assignments |-> vals[a] - c]]
    [] op = "mul_c"    -> [l |-> Scale(lc, c),       v |-> [a \in Assignments |-> vals[a] * c]]

Ops == {"add_c_lc", "sub_c_lc", "add_lc", "sub_lc", "add_c", "sub_c", "mul_c"}

Step ==
  /\ Len(hist) <= MaxOps
  /\ \E op \in Ops, c \in Scalars, s \in 1..Len(Pool) :
       /\ op \in {"add_lc", "sub_lc"} => c = CHOOSE x \in Scalars : TRUE      \* scalar unused
       /\ op \in {"add_c", "sub_c", "mul_c"} => s = 1                            \* operand unused
       /\ LET r == Apply(op, c, s) IN lc' = r.l /\ vals' = r.v
       /\ hist' = Append(hist, <<op, s, c>>)

Next == Step
Spec == Init /\ [][Next]_vars

\* the law: the tracked arithmetic value is the value of the term list
ValueLaw == \A a \in Assignments : Eval(lc, a) = vals[a]
Dump == PrintT(<<"DUMP", ToJson([hist |-> hist, lc |-> lc])>>)
=============================================================================
