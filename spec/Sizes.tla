------------------------------- MODULE Sizes -------------------------------
(***************************************************************************)
(* Size laws (properties C19 and the size clause of C12): the number of     *)
(* group elements, field elements, length prefixes and option tags in the   *)
(* canonical serialization of every commitment and opening proof, as a      *)
(* function of the configuration only.  A size is a record of unit counts   *)
(*    [g |-> G1 / curve points, g2 |-> G2 points, fr |-> scalars,           *)
(*     u64 |-> 8-byte integers / length prefixes, opt |-> option tags,      *)
(*     raw |-> plain bytes]                                                 *)
(* which the harness multiplies with the concrete widths of the curve.      *)
(* For Ligero / Brakedown the law is an inequality: the proof is at most    *)
(* 4 x the best size over all power-of-two row counts of the modelled       *)
(* proof (t columns with Merkle paths + two row vectors).                   *)
(* TLC walks a geometric ladder of polynomial sizes and prints the laws;    *)
(* invariants state what "succinct" means (independence of the size).       *)
(***************************************************************************)
EXTENDS Naturals, Integers, Sequences, FiniteSets, TLC, Json

CONSTANTS SzSchemes, SzDegrees, SzVars, SzPolys

NONE == -1
U(g, g2, fr, u64, opt, raw) == [g |-> g, g2 |-> g2, fr |-> fr, u64 |-> u64, opt |-> opt, raw |-> raw]
Plus(a, b) == U(a.g + b.g, a.g2 + b.g2, a.fr + b.fr, a.u64 + b.u64, a.opt + b.opt, a.raw + b.raw)
Times(k, a) == U(k * a.g, k * a.g2, k * a.fr, k * a.u64, k * a.opt, k * a.raw)
Z0 == U(0, 0, 0, 0, 0, 0)

RECURSIVE Log2Ceil(_)
Log2Ceil(n) == IF n <= 1 THEN 0 ELSE 1 + Log2Ceil((n + 1) \div 2)
RECURSIVE Pow2Ceil(_, _)
Pow2Ceil(n, acc) == IF acc >= n THEN acc ELSE Pow2Ceil(n, 2 * acc)
Pow2(k) == 2 ^ k
CeilDiv(a, b) == (a + b - 1) \div b

\* ---------------------------------------------------------------- commitments
\* c = [s, deg, nv, bound (has a degree bound), hid (is hiding)]
CommSize(c) ==
  CASE c.s \in {"marlin", "pst13"} -> Plus(U(1, 0, 0, 0, 1, 0), IF c.bound /\ c.s = "marlin" THEN U(1, 0, 0, 0, 0, 0) ELSE Z0)
    [] c.s \in {"sonic", "kzg10", "stream"} -> U(1, 0, 0, 0, 0, 0)              \* one G1 element
    [] c.s = "ipa" -> Plus(U(1, 0, 0, 0, 1, 0), IF c.bound THEN U(1, 0, 0, 0, 0, 0) ELSE Z0)
    [] c.s = "hyrax" -> U(Pow2(c.nv \div 2), 0, 0, 1, 0, 0)                 \* one commitment per matrix row
    [] c.s = "mlpst" -> U(1, 0, 0, 1, 0, 0)
    [] OTHER -> U(0, 0, 0, 4, 0, 32)                                        \* linear codes: metadata + root

\* ---------------------------------------------------------------- single-point proofs (one `open` of k polynomials)
ProofSize(c, k) ==
  CASE c.s \in {"marlin", "sonic", "kzg10"} -> Plus(U(1, 0, 0, 0, 1, 0), IF c.hid THEN U(0, 0, 1, 0, 0, 0) ELSE Z0)
    \* streaming KZG: ONE G1 element whatever the number of polynomials and of evaluation points
    [] c.s = "stream" -> U(1, 0, 0, 0, 0, 0)
    [] c.s = "pst13" -> Plus(U(c.nv, 0, 0, 1, 1, 0), IF c.hid THEN U(0, 0, 1, 0, 0, 0) ELSE Z0)
    [] c.s = "ipa" -> LET r == Log2Ceil(Pow2Ceil(c.deg + 1, 1)) IN
                      Plus(U(2 * r + 1, 0, 1, 2, 2, 0), IF c.hid THEN U(1, 0, 1, 0, 0, 0) ELSE Z0)
    [] c.s = "hyrax" -> Plus(U(0, 0, 0, 1, 0, 0), Times(k, U(3, 0, Pow2(c.nv \div 2) + 2, 1, 0, 0)))
    [] c.s = "mlpst" -> U(0, c.nv, 0, 1, 0, 0)
    [] OTHER -> Z0        \* linear codes: see LinModel

\* ---------------------------------------------------------------- batch proofs (batch_open over a query set)
\* one single-point proof per distinct POINT behind one length prefix: the number of polynomials queried at a
\* point and the mix of their degree-bound / hiding settings do not enter (a hiding member adds the one scalar)
BatchSize(c, npoints) == Plus(U(0, 0, 0, 1, 0, 0), Times(npoints, ProofSize(c, c.k)))

\* linear-combination proofs of the trait-default path (Hyrax, linear codes): the batch proof over the
\* (polynomial, point) pairs the combinations NEED plus one transmitted evaluation per such pair.  Two combinations over
\* disjoint halves of the k polynomials, queried at two different points, need k pairs (not 2k).
LcEvals(c) == c.k

\* ---------------------------------------------------------------- linear codes
\* modelled proof for a matrix with `rows` rows over N coefficients, t opened columns, tree depth h
PathSize(h) == U(0, 0, 0, 3 + h, 0, 32 + 32 * h)      \* leaf sibling (len + 32), auth path (len + h x (len? no: 32)), index
LinModel(N, rows, t, next) ==
  LET cols == CeilDiv(N, rows)
      h == Log2Ceil(Pow2Ceil(next, 1)) - 1
      tt == IF t < next THEN t ELSE next
  IN Plus(Plus(Times(tt, PathSize(IF h < 0 THEN 0 ELSE h)), U(0, 0, 2 * cols + tt * rows, 3 + tt + 1, 1, 0)), Z0)
\* codeword length of a row of `cols` coefficients
CodeLen(s, cols) == CASE s = "ligero_uni" -> Pow2Ceil(4 * cols, 1)
                      [] s = "ligero_ml" -> Pow2Ceil(2 * cols, 1)
                      [] OTHER -> CeilDiv(cols * 1521, 1000) + 2       \* Brakedown: about rho^-1 * cols
TOf(s) == CASE s = "ligero_uni" -> 191 [] s = "ligero_ml" -> 311 [] OTHER -> 4415    \* from Columns.tla (lambda = 128)
\* widths are only needed to compare shapes: bytes with 32-byte scalars and hashes
Bytes(u) == 32 * u.fr + 8 * u.u64 + u.opt + u.raw + 48 * u.g + 96 * u.g2
RowCounts(N) == {Pow2(k) : k \in 0..Log2Ceil(N)}
\* every candidate shape: rows, modelled bytes, codeword length, opened columns
LinShapes(s, N) ==
  {[rows |-> r, bytes |-> Bytes(LinModel(N, r, TOf(s), CodeLen(s, CeilDiv(N, r)))),
    next |-> CodeLen(s, CeilDiv(N, r)),
    t |-> IF TOf(s) < CodeLen(s, CeilDiv(N, r)) THEN TOf(s) ELSE CodeLen(s, CeilDiv(N, r))] : r \in RowCounts(N)}
\* "best coefficient-matrix shape ... once the required number of column openings is below the
\* codeword length": the minimum over the shapes that do NOT open every column (0 if there is none)
BestLin(s, N) ==
  LET sizes == {x.bytes : x \in {y \in LinShapes(s, N) : y.t < y.next}}
  IN IF sizes = {} THEN 0 ELSE CHOOSE x \in sizes : \A y \in sizes : x <= y

\* ---------------------------------------------------------------- the ladder
VARIABLES c, done
vars == <<c, done>>
Cases ==
  {x \in [s : SzSchemes, deg : SzDegrees, nv : SzVars, bound : BOOLEAN, hid : BOOLEAN, k : SzPolys] :
     /\ x.s \in {"marlin", "sonic", "ipa", "ligero_uni", "kzg10", "stream"} => x.nv = CHOOSE v \in SzVars : TRUE
     /\ x.s = "kzg10" => ~x.bound /\ x.k = 1
     /\ x.s = "stream" => ~x.bound /\ ~x.hid
     /\ x.s \in {"hyrax", "mlpst", "ligero_ml", "brakedown"} => x.deg = CHOOSE d \in SzDegrees : TRUE
     /\ x.s = "hyrax" => x.nv % 2 = 0
     /\ x.s = "pst13" => x.nv <= 3 /\ x.deg <= 4
     /\ x.s \notin {"marlin", "sonic", "ipa"} => ~x.bound
     /\ x.s \notin {"marlin", "sonic", "ipa", "pst13"} => ~x.hid
     /\ x.s \in {"mlpst"} => x.k = 1}
Init == c \in Cases /\ done = FALSE
Emit == ~done /\ done' = TRUE /\ UNCHANGED c
Next == Emit \/ (done /\ UNCHANGED vars)
Spec == Init /\ [][Next]_vars

LinCode == c.s \in {"ligero_uni", "ligero_ml", "brakedown"}
NCoeffs == IF c.s = "ligero_uni" THEN c.deg + 1 ELSE Pow2(c.nv)

\* succinctness as statements about the laws themselves
ConstantCommitment == c.s \in {"marlin", "sonic", "ipa", "pst13", "mlpst", "ligero_uni", "ligero_ml", "brakedown", "kzg10", "stream"} =>
   \A d2 \in SzDegrees : CommSize([c EXCEPT !.deg = d2]) = CommSize(c)
ConstantKzgProof == c.s \in {"marlin", "sonic", "kzg10", "stream"} => \A d2 \in SzDegrees, k2 \in SzPolys : ProofSize([c EXCEPT !.deg = d2], k2) = ProofSize(c, c.k)
IpaLogarithmic == c.s = "ipa" => ProofSize(c, c.k).g = 2 * Log2Ceil(Pow2Ceil(c.deg + 1, 1)) + 1 + (IF c.hid THEN 1 ELSE 0)
BatchPerPoint == c.s \in {"marlin", "sonic", "ipa", "pst13"} =>
   \A k2 \in SzPolys, b2 \in BOOLEAN : BatchSize([c EXCEPT !.k = k2, !.bound = b2], 2).g = 2 * ProofSize(c, c.k).g
HyraxSquareRoot == c.s = "hyrax" => CommSize(c).g * CommSize(c).g = Pow2(c.nv)

Dump == done => PrintT(<<"DUMP", ToJson([cfg |-> c, comm |-> CommSize(c), proof |-> ProofSize(c, c.k),
                                         batch2 |-> BatchSize(c, 2),
                                         lc_evals |-> LcEvals(c),
                                         lin |-> LinCode,
                                         lin_best |-> IF LinCode THEN BestLin(c.s, NCoeffs) ELSE 0,
                                         lin_shapes |-> IF LinCode THEN LinShapes(c.s, NCoeffs) ELSE {},
                                         ncoeffs |-> NCoeffs])>>)
=============================================================================
