----------------------------- MODULE FixedPoint -----------------------------
(***************************************************************************)
(* Certified fixed-point arithmetic for the soundness bound of the linear-  *)
(* code schemes (property C13):                                             *)
(*        2 * (1 - d/2)^t + n/|F|  <=  2^-lambda .                          *)
(* TLC integers are 32 bit, so a number in [0,1) is a sequence of L limbs   *)
(* in base B = 2^12 (L*12 fractional bits).  Every operation exists in a    *)
(* round-DOWN and a round-UP version, hence every quantity is carried as a  *)
(* certified [lower, upper] enclosure.  T(lambda, d, n, |F|) -- the least t *)
(* satisfying the bound -- is therefore obtained as an interval [tlo, thi]; *)
(* where the two ends differ the point is UNDECIDED (reported, never an     *)
(* alarm).  |F| enters through its bit length b and its 19 leading bits.    *)
(***************************************************************************)
EXTENDS Naturals, Integers, Sequences, FiniteSets, TLC

B == 4096
BBits == 12
L == 36                       \* 432 fractional bits

ZeroL == [i \in 1..L |-> 0]
Ulp == [i \in 1..L |-> IF i = L THEN 1 ELSE 0]

\* ---- comparison (lexicographic on limbs)
RECURSIVE CmpFrom(_, _, _)
CmpFrom(a, b, i) == IF i > L THEN 0 ELSE IF a[i] < b[i] THEN -1 ELSE IF a[i] > b[i] THEN 1 ELSE CmpFrom(a, b, i + 1)
Cmp(a, b) == CmpFrom(a, b, 1)
LeqL(a, b) == Cmp(a, b) <= 0
LtL(a, b) == Cmp(a, b) < 0

\* ---- addition / subtraction (results stay in [0,1) for our uses; AddL saturates just below 1)
RECURSIVE AddFrom(_, _, _, _, _)
AddFrom(a, b, i, carry, acc) ==
  IF i = 0 THEN [r |-> acc, carry |-> carry]
  ELSE LET s == a[i] + b[i] + carry IN AddFrom(a, b, i - 1, s \div B, [acc EXCEPT ![i] = s % B])
AddL(a, b) == LET r == AddFrom(a, b, L, 0, ZeroL) IN IF r.carry > 0 THEN [i \in 1..L |-> B - 1] ELSE r.r
RECURSIVE SubFrom(_, _, _, _, _)
SubFrom(a, b, i, borrow, acc) ==
  IF i = 0 THEN acc
  ELSE LET s == a[i] - b[i] - borrow IN
       IF s < 0 THEN SubFrom(a, b, i - 1, 1, [acc EXCEPT ![i] = s + B])
       ELSE SubFrom(a, b, i - 1, 0, [acc EXCEPT ![i] = s])
SubL(a, b) == IF LeqL(a, b) THEN ZeroL ELSE SubFrom(a, b, L, 0, ZeroL)     \* a - b, clamped at 0

\* ---- halving (exact up to the last bit: Down drops it, Up rounds it up)
RECURSIVE HalfFrom(_, _, _, _)
HalfFrom(a, i, rem, acc) ==
  IF i > L THEN [r |-> acc, rem |-> rem]
  ELSE LET v == rem * B + a[i] IN HalfFrom(a, i + 1, v % 2, [acc EXCEPT ![i] = v \div 2])
HalfDown(a) == HalfFrom(a, 1, 0, ZeroL).r
HalfUp(a) == LET h == HalfFrom(a, 1, 0, ZeroL) IN IF h.rem = 1 THEN AddL(h.r, Ulp) ELSE h.r

\* ---- multiplication of two fractions: exact column sums, full carry propagation, keep L limbs
ColSum(a, b, k) ==
  LET lo == IF k - L > 1 THEN k - L ELSE 1
      hi == IF k - 1 < L THEN k - 1 ELSE L
      RECURSIVE S(_)
      S(i) == IF i > hi THEN 0 ELSE a[i] * b[k - i] + S(i + 1)
  IN S(lo)
RECURSIVE MulFrom(_, _, _, _, _)
MulFrom(a, b, k, carry, acc) ==
  IF k < 2 THEN [acc EXCEPT ![1] = carry]
  ELSE LET s == ColSum(a, b, k) + carry IN
       MulFrom(a, b, k - 1, s \div B, IF k <= L THEN [acc EXCEPT ![k] = s % B] ELSE acc)
MulDown(a, b) == MulFrom(a, b, 2 * L, 0, ZeroL)
MulUp(a, b) == AddL(MulDown(a, b), Ulp)

\* ---- powers by square-and-multiply; `one` flags the exact value 1 (empty product)
RECURSIVE PowDown(_, _)
PowDown(x, t) ==      \* t >= 1
  IF t = 1 THEN x
  ELSE LET h == PowDown(x, t \div 2) sq == MulDown(h, h) IN IF t % 2 = 1 THEN MulDown(sq, x) ELSE sq
RECURSIVE PowUp(_, _)
PowUp(x, t) ==
  IF t = 1 THEN x
  ELSE LET h == PowUp(x, t \div 2) sq == MulUp(h, h) IN IF t % 2 = 1 THEN MulUp(sq, x) ELSE sq

\* ---- conversions
\* p/q for 0 <= p < q < 2^19, by long division
RECURSIVE FracFrom(_, _, _, _)
FracFrom(r, q, i, acc) ==
  IF i > L THEN [r |-> acc, rem |-> r]
  ELSE LET v == r * B IN FracFrom(v % q, q, i + 1, [acc EXCEPT ![i] = v \div q])
FracDown(p, q) == FracFrom(p, q, 1, ZeroL).r
FracUp(p, q) == LET f == FracFrom(p, q, 1, ZeroL) IN IF f.rem # 0 THEN AddL(f.r, Ulp) ELSE f.r
\* 2^-k, k >= 1 (zero when it is below the resolution)
Pow2Neg(k) ==
  LET i == (k + BBits - 1) \div BBits IN
  IF i > L THEN ZeroL ELSE [j \in 1..L |-> IF j = i THEN 2 ^ (BBits * i - k) ELSE 0]
\* m * 2^-s for 0 <= m < 2^20, as a sum of its bits (exact when s - 19 >= 1 and s <= L*12)
RECURSIVE ScaledFrom(_, _, _, _)
ScaledFrom(m, s, j, acc) ==
  IF j > 20 THEN acc
  ELSE ScaledFrom(m, s, j + 1, IF (m \div (2 ^ j)) % 2 = 1 /\ s - j >= 1 THEN AddL(acc, Pow2Neg(s - j)) ELSE acc)
Scaled(m, s) == ScaledFrom(m, s, 0, ZeroL)

\* a * 2^-s for s >= 0 (shift right by s bits): Down drops the bits shifted out, Up adds one ulp
ShrDown(a, s) ==
  LET k == s \div BBits
      r == s % BBits
      pw == 2 ^ r
  IN [i \in 1..L |->
        LET hi == IF i - k >= 1 THEN a[i - k] ELSE 0
            lo == IF i - k - 1 >= 1 THEN a[i - k - 1] ELSE 0
        IN (hi \div pw) + (lo % pw) * (B \div pw)]
ShrUp(a, s) == AddL(ShrDown(a, s), Ulp)

RECURSIVE Gcd(_, _)
Gcd(a, b) == IF b = 0 THEN a ELSE Gcd(b, a % b)

(***************************************************************************)
(* The oracle.  A case is [lam, d0, d1, nm, ne, bits]: security parameter,  *)
(* relative distance d0/d1, codeword length n = nm * 2^ne, field bit size.  *)
(***************************************************************************)
TMax == 131072
Oracle(c) ==
  LET g == Gcd(2 * c.d1 - c.d0, 2 * c.d1)
      p == (2 * c.d1 - c.d0) \div g          \* x = 1 - d/2 = p/q
      q == (2 * c.d1) \div g
      xlo == FracDown(p, q)
      xhi == FracUp(p, q)
      eps == Pow2Neg(c.lam)
      \* n/|F|: with the 19 leading bits `top` of the modulus, |F| lies in [top, top+1) * 2^(bits-19), so
      \* n/|F| is enclosed by nm/(top+1) * 2^-s and nm/top * 2^-s, s = bits - 19 - ne (relative width 2^-18);
      \* without them only 2^(bits-1) < |F| < 2^bits is used (width: a factor 2)
      sh == c.bits - 19 - c.ne
      tight == c.top > 0 /\ c.nm < c.top /\ sh >= 0
      resLo == IF tight THEN ShrDown(FracDown(c.nm, c.top + 1), sh) ELSE Scaled(c.nm, c.bits - c.ne)
      resHi == IF tight THEN ShrUp(FracUp(c.nm, c.top), sh) ELSE AddL(Scaled(c.nm, c.bits - 1 - c.ne), Ulp)
      usableSure == LtL(resHi, eps)           \* 2^-lam > n/2^(bits-1) > n/|F|
      refuseSure == LeqL(eps, resLo)          \* 2^-lam <= n/2^bits < n/|F|
      thrLo == HalfDown(SubL(eps, resHi))     \* lower bound on (2^-lam - n/|F|)/2
      thrHi == HalfUp(SubL(eps, resLo))       \* upper bound
      CertTrue(t) == LeqL(PowUp(xhi, t), thrLo)       \* the bound certainly holds at t
      CertFalse(t) == LtL(thrHi, PowDown(xlo, t))     \* the bound certainly fails at t
      \* least t in [lo, hi] with a monotone predicate (false .. false true .. true; true at hi)
      RECURSIVE LeastTrue(_, _)
      LeastTrue(lo, hi) == IF lo >= hi THEN lo
                           ELSE LET mid == (lo + hi) \div 2 IN
                                IF CertTrue(mid) THEN LeastTrue(lo, mid) ELSE LeastTrue(mid + 1, hi)
      RECURSIVE LeastNotFalse(_, _)
      LeastNotFalse(lo, hi) == IF lo >= hi THEN lo
                               ELSE LET mid == (lo + hi) \div 2 IN
                                    IF ~CertFalse(mid) THEN LeastNotFalse(lo, mid) ELSE LeastNotFalse(mid + 1, hi)
  IN IF c.d0 <= 0 \/ c.d0 > 2 * c.d1 \/ c.d0 = 2 * c.d1 THEN [class |-> "degenerate", tlo |-> 0, thi |-> 0]
     ELSE IF refuseSure THEN [class |-> "refuse", tlo |-> 0, thi |-> 0]
     ELSE IF ~usableSure THEN [class |-> "undecided", tlo |-> 0, thi |-> 0]
     ELSE IF ~CertTrue(TMax) THEN [class |-> "undecided", tlo |-> 0, thi |-> 0]
     ELSE [class |-> "usable", tlo |-> LeastNotFalse(1, TMax), thi |-> LeastTrue(1, TMax)]
=============================================================================
