--------------------------- MODULE DivideAtPoint ---------------------------
(***************************************************************************)
(* MarlinPST13::divide_at_point over the integers: the term-list algorithm  *)
(* that computes quotients w_i with                                         *)
(*        p(X) - p(z) = sum_i (X_i - z_i) * w_i(X)                          *)
(* one variable after the other; a polynomial is a function from exponent   *)
(* vectors to coefficients (from_coefficients_vec merges like terms).       *)
(* TLC enumerates every polynomial over the monomials of total degree <=    *)
(* MaxDegree in 2 variables (mixed monomials such as X0*X1, X0^2*X1          *)
(* included; at most MaxTerms non-zero terms) with coefficients in          *)
(* Coeffs and every point in Points^2, checks the identity exactly, and     *)
(* prints the quotients for comparison with the real function.              *)
(***************************************************************************)
EXTENDS Naturals, Integers, Sequences, FiniteSets, TLC, Json

CONSTANTS Coeffs, Points, MaxDegree,
          MaxTerms     \* only polynomials with at most this many non-zero terms (sparse enumeration for degree 3)

NV == 2
Exps == {e \in (0..MaxDegree) \X (0..MaxDegree) : e[1] + e[2] <= MaxDegree}
AllExps == (0..(2 * MaxDegree)) \X (0..(2 * MaxDegree))

VARIABLES p, z, var, cur, quots, done
vars == <<p, z, var, cur, quots, done>>

Zero == [e \in AllExps |-> 0]
Init ==
  /\ p \in {f \in [Exps -> Coeffs] : Cardinality({e \in Exps : f[e] # 0}) <= MaxTerms}
  /\ z \in Points \X Points
  /\ var = 1 /\ cur = [e \in AllExps |-> IF e \in Exps THEN p[e] ELSE 0]
  /\ quots = <<>> /\ done = FALSE

RECURSIVE Pow(_, _)
Pow(b, k) == IF k <= 0 THEN 1 ELSE b * Pow(b, k - 1)
Lower(e, i, k) == [e EXCEPT ![i] = k]
RECURSIVE SumOver(_, _)
SumOver(S, f) == IF S = {} THEN 0 ELSE LET x == CHOOSE y \in S : TRUE IN f[x] + SumOver(S \ {x}, f)

\* divide `cur` by (X_var - z_var): term c * X_i^k * m contributes c * z^(t-1) to X_i^(k-t) * m
\* for t = 1..k to the quotient, and c * z^k to the remainder term m; constants are dropped
DivideVar ==
  /\ ~done /\ var <= NV
  /\ LET i == var
         zi == z[i]
         quot == [e \in AllExps |->
                    LET src == {k \in (e[i] + 1)..(2 * MaxDegree) : Lower(e, i, k) \in AllExps}
                    IN SumOver(src, [k \in src |-> cur[Lower(e, i, k)] * Pow(zi, k - e[i] - 1)])]
         rem == [e \in AllExps |->
                    IF e[i] # 0 THEN 0
                    ELSE LET src == {k \in 1..(2 * MaxDegree) : Lower(e, i, k) \in AllExps}
                         IN (IF e = <<0, 0>> THEN 0 ELSE cur[e])
                            + SumOver(src, [k \in src |-> cur[Lower(e, i, k)] * Pow(zi, k)])]
     IN /\ quots' = Append(quots, quot) /\ cur' = rem
  /\ var' = var + 1
  /\ done' = (var = NV)
  /\ UNCHANGED <<p, z>>

Next == DivideVar \/ (done /\ UNCHANGED vars)
Spec == Init /\ [][Next]_vars

\* ---------------------------------------------------------------- the identity
Eval(q) == LET T == {e \in AllExps : q[e] # 0} IN SumOver(T, [e \in T |-> q[e] * Pow(z[1], e[1]) * Pow(z[2], e[2])])
\* (X_i - z_i) * w  as a coefficient function
TimesLin(w, i) ==
  [e \in AllExps |-> (IF e[i] > 0 THEN w[Lower(e, i, e[i] - 1)] ELSE 0) - z[i] * w[e]]
P0 == [e \in AllExps |-> IF e \in Exps THEN p[e] ELSE 0]
Identity ==
  done => \A e \in AllExps :
             TimesLin(quots[1], 1)[e] + TimesLin(quots[2], 2)[e] + (IF e = <<0, 0>> THEN Eval(P0) ELSE 0) = P0[e]
\* quotient degrees never exceed the dividend's (so every term has a key element)
DegreesBounded == done => \A k \in 1..Len(quots) : \A e \in AllExps : quots[k][e] # 0 => e[1] + e[2] <= MaxDegree - 1

Terms(q) == {<<e[1], e[2], q[e]>> : e \in {x \in AllExps : q[x] # 0}}
Dump == done => PrintT(<<"DUMP", ToJson([p |-> Terms(P0), z |-> z, w1 |-> Terms(quots[1]), w2 |-> Terms(quots[2]),
                                         value |-> Eval(P0)])>>)
=============================================================================
