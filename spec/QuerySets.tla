----------------------------- MODULE QuerySets -----------------------------
(***************************************************************************)
(* Query sets, evaluations and linear combinations as the library handles   *)
(* them: grouping of a QuerySet by point label in BTreeMap order (both      *)
(* sides), lc_query_set_to_poly_query_set, evaluate_query_set, and the two  *)
(* linear-combination paths (the trait default, which transmits the         *)
(* polynomial evaluations, and the homomorphic Marlin/Sonic/IPA path).      *)
(*                                                                          *)
(* Labels, point labels and point ids are small integers; the harness maps  *)
(* label i to "p0i" / "q0i" / "e0i" so that numeric order = BTreeMap order. *)
(* Two point labels may carry the same point id (same point value).         *)
(***************************************************************************)
EXTENDS Admission, SequencesExt

\* ---- sorted sequences of small tuples (BTreeSet / BTreeMap iteration order)
SortInts(S) == SetToSortSeq(S, LAMBDA a, b : a < b)
LexLess(a, b) ==      \* lexicographic order on equal-length integer tuples
  \E i \in DOMAIN a : a[i] < b[i] /\ \A j \in 1..(i-1) : a[j] = b[j]
SortTuples(S) == SetToSortSeq(S, LexLess)

\* ---- a query set is a set of <<label, pointlabel, pt>> ; one pt per point label (WellFormedQs; the adversary's
\* `repoint_query` breaks it)
PLs(qs) == {q[2] : q \in qs}
WellFormedQs(qs) == \A q1, q2 \in qs : q1[2] = q2[2] => q1[3] = q2[3]
\* (the entry API keeps the point of the first query of a label in BTreeSet order)
PtOf(qs, pl) == SortTuples({q \in qs : q[2] = pl})[1][3]
LabelsAt(qs, pl) == SortInts({q[1] : q \in {x \in qs : x[2] = pl}})

\* query_to_labels_map.into_iter(): keys ascending; labels ascending inside.  For a well-formed query set the two
\* keyings give the same groups.
GroupKeys(qs) ==
  IF BatchGroupsByLabelAndPoint THEN SortTuples({<<q[2], q[3]>> : q \in qs})
  ELSE LET pls == SortInts(PLs(qs)) IN [k \in DOMAIN pls |-> <<pls[k], PtOf(qs, pls[k])>>]
Groups(qs) ==
  LET ks == GroupKeys(qs) IN
  [k \in DOMAIN ks |->
     [pl |-> ks[k][1], pt |-> ks[k][2],
      labels |-> IF BatchGroupsByLabelAndPoint
                 THEN SortInts({q[1] : q \in {x \in qs : x[2] = ks[k][1] /\ x[3] = ks[k][2]}})
                 ELSE LabelsAt(qs, ks[k][1])]]

\* evaluation keys are (label, point VALUE): two point labels on one value share a key
EvalKeys(qs) == {<<q[1], q[3]>> : q \in qs}

\* ---- linear combinations: lc = [l, terms], terms = seq of <<coeff, term>>, term 0 = One
PolyTerms(lc) == {i \in DOMAIN lc.terms : lc.terms[i][2] # 0}
LcByLabel(lcs, l) == CHOOSE i \in DOMAIN lcs : lcs[i].l = l
HasLc(lcs, l) == \E i \in DOMAIN lcs : lcs[i].l = l

\* lc_query_set_to_poly_query_set
LcPolyQs(lcs, lqs) ==
  UNION {{<<lcs[LcByLabel(lcs, q[1])].terms[i][2], q[2], q[3]>> :
              i \in PolyTerms(lcs[LcByLabel(lcs, q[1])])} : q \in {x \in lqs : HasLc(lcs, x[1])}}

\* the linear form of an LC over the committed polynomials: label |-> summed coefficient
RECURSIVE SumCoeffs(_, _, _)
SumCoeffs(terms, l, i) ==
  IF i > Len(terms) THEN 0
  ELSE (IF terms[i][2] = l THEN terms[i][1] ELSE 0) + SumCoeffs(terms, l, i + 1)
LcLabels(lc) == {lc.terms[i][2] : i \in PolyTerms(lc)}
LcForm(lc, Labels) == [l \in Labels |-> SumCoeffs(lc.terms, l, 1)]
LcConst(lc) == SumCoeffs(lc.terms, 0, 1)

\* ---- the trait-default LC path: which transmitted evaluation the verifier associates
\* with which (label, point) key.  The prover sends BTreeMap<(label,point)>::values();
\* the verifier zips them with its own sorted key set.
ProverEvalKeys(pqs) == SortTuples(EvalKeys(pqs))
VerifierEvalKeys(pqs) ==
  IF DefaultLCKeyedByPointLabel
  THEN LET s == SortTuples({<<q[1], q[3], q[2]>> : q \in pqs}) IN [i \in DOMAIN s |-> <<s[i][1], s[i][2]>>]
  ELSE SortTuples(EvalKeys(pqs))
\* from_iter overwrite semantics: the LAST zipped pair with a given key wins
AssocIndex(vkeys, n, key) ==
  LET hits == {i \in DOMAIN vkeys : i <= n /\ vkeys[i] = key} IN
  IF hits = {} THEN 0 ELSE MaxOf(hits)

=============================================================================
