------------------------------ MODULE RngTrace ------------------------------
(***************************************************************************)
(* Property C07 as a TRACE specification: the caller's RNG is a stream of   *)
(* field samples with a position; every hiding commit / open consumes at    *)
(* least the slice the scheme prescribes, starting where the previous       *)
(* call stopped (so slices are pairwise disjoint: fresh randomness), the    *)
(* returned commitment state consists of exactly those samples, and the     *)
(* blinding term of commitment and proof is the one KeyLayout's blinding    *)
(* recipe gives for those coefficients.  Non-hiding calls consume nothing.  *)
(*                                                                          *)
(* Events (ndjson, recorded by `pcv rngtrace` around real library calls):   *)
(*  reset   a new session with a fresh RNG stream                           *)
(*  commit  [scheme, polys: seq of [h, bounded], nv, sup, start, n,         *)
(*           state_is_samples, blind_ok, state_empty]                       *)
(*  open    [scheme, hiding, dim, sup, start, n, proof_blind_ok]            *)
(* start / n are measured by replaying the sampling routine over the bytes  *)
(* the library drew from the logging RNG.                                   *)
(***************************************************************************)
EXTENDS Naturals, Integers, Sequences, FiniteSets, TLC, Json, IOUtils

Rec == ndJsonDeserialize(IOEnv.TRACE)

VARIABLES l, pos
vars == <<l, pos>>

NONE == -1

\* field samples one blinded commitment consumes
CommitDraws(scheme, p, nv) ==
  IF p.h = NONE /\ scheme # "hyrax" THEN 0
  ELSE CASE scheme \in {"kzg10", "sonic"} -> p.h + 2                      \* blinding polynomial of degree h+1
         [] scheme = "marlin" -> (p.h + 2) * (IF p.bounded THEN 2 ELSE 1)   \* again for the shifted commitment
         [] scheme = "pst13"  -> 1 + nv * (p.h + 1)                         \* constant + nv univariate parts of degree h+1
         [] scheme = "ipa"    -> IF p.bounded THEN 2 ELSE 1
         [] scheme = "hyrax"  -> 2 ^ (nv \div 2)                            \* one scalar per matrix row
         [] OTHER -> 0
RECURSIVE SumDraws(_, _, _, _)
SumDraws(scheme, ps, nv, k) == IF k > Len(ps) THEN 0 ELSE CommitDraws(scheme, ps[k], nv) + SumDraws(scheme, ps, nv, k + 1)

OpenDraws(e) ==
  CASE e.scheme = "ipa" -> IF e.hiding THEN e.sup + 2 ELSE 0     \* masking polynomial of degree sup, one scalar
    [] e.scheme = "hyrax" -> e.npolys * (e.dim + 3)                 \* r_eval, the vector d, r_d, r_b per polynomial
    [] OTHER -> 0

Init == l = 1 /\ pos = 0

IsEvent(k) == l <= Len(Rec) /\ Rec[l].ev = k /\ l' = l + 1

TraceReset == IsEvent("reset") /\ pos' = 0

TraceCommit ==
  /\ IsEvent("commit")
  /\ LET e == Rec[l] IN
     /\ e.start = pos                                        \* continues the stream: never re-uses a position
     /\ e.n >= SumDraws(e.scheme, e.polys, e.nv, 1)          \* at least the prescribed amount (h+2 per blinded commitment);
                                                             \* drawing more is allowed by the property (harness reports it as drift)
     /\ e.state_is_samples                                   \* the returned state is made of exactly these samples
     /\ e.blind_ok                                           \* commitment - plain commitment = blinding recipe(state)
     /\ (\A k \in DOMAIN e.polys : e.polys[k].h = NONE) /\ e.scheme # "hyrax" => e.state_empty
     /\ pos' = pos + e.n

TraceOpen ==
  /\ IsEvent("open")
  /\ LET e == Rec[l] IN
     /\ e.start = pos
     /\ e.n >= OpenDraws(e)
     /\ e.proof_blind_ok                                     \* proof's blinding field = blinding contribution at the point
     /\ pos' = pos + e.n

TraceNext == TraceReset \/ TraceCommit \/ TraceOpen
TraceSpec == Init /\ [][TraceNext]_vars

\* accepted iff every event was consumed; otherwise print the first unmatched event
TraceAccepted ==
  LET d == TLCGet("stats").diameter IN
  IF d - 1 = Len(Rec) THEN TRUE
  ELSE Print(<<"UNMATCHED", d, IF d <= Len(Rec) THEN ToJson(Rec[d]) ELSE "end">>, FALSE)
=============================================================================
